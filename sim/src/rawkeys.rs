//! Ground truth for listings: decode cw-storage-plus keys from a raw dump of a contract's namespace.
//! This is an unbounded read that shares no bound / cursor / limit code with the queries under test.

fn ns_prefix(ns: &str) -> Vec<u8> {
    let mut p = (ns.len() as u16).to_be_bytes().to_vec();
    p.extend_from_slice(ns.as_bytes());
    p
}

/// all (key-suffix, value) pairs stored under map namespace `ns`, in byte order
pub fn entries(dump: &[(Vec<u8>, Vec<u8>)], ns: &str) -> Vec<(Vec<u8>, Vec<u8>)> {
    let p = ns_prefix(ns);
    let mut v: Vec<(Vec<u8>, Vec<u8>)> = dump
        .iter()
        .filter(|(k, _)| k.len() >= p.len() && k[..p.len()] == p[..])
        .map(|(k, val)| (k[p.len()..].to_vec(), val.clone()))
        .collect();
    v.sort();
    v
}

/// split a composite key suffix "len(a) a b" into (a, b)
pub fn split2(s: &[u8]) -> Option<(Vec<u8>, Vec<u8>)> {
    if s.len() < 2 {
        return None;
    }
    let l = u16::from_be_bytes([s[0], s[1]]) as usize;
    if s.len() < 2 + l {
        return None;
    }
    Some((s[2..2 + l].to_vec(), s[2 + l..].to_vec()))
}

pub fn item_key(ns: &str) -> Vec<u8> {
    ns.as_bytes().to_vec()
}

pub fn map_key(ns: &str, k: &[u8]) -> Vec<u8> {
    let mut p = ns_prefix(ns);
    p.extend_from_slice(k);
    p
}

pub fn map_key2(ns: &str, a: &[u8], b: &[u8]) -> Vec<u8> {
    let mut p = ns_prefix(ns);
    p.extend_from_slice(&(a.len() as u16).to_be_bytes());
    p.extend_from_slice(a);
    p.extend_from_slice(b);
    p
}

pub fn u64_of(b: &[u8]) -> Option<u64> {
    if b.len() == 8 {
        let mut a = [0u8; 8];
        a.copy_from_slice(b);
        Some(u64::from_be_bytes(a))
    } else {
        None
    }
}
