//! Concrete, PRNG-free traces: a trace is a world configuration plus a list of concrete steps.
use serde::{Deserialize, Serialize};
use serde_json::Value;

use crate::chain::{Fault, SinkAct};
use crate::contracts::IbcSudo;

fn is_zero(x: &u64) -> bool {
    *x == 0
}

#[derive(Clone, Debug, Serialize, Deserialize, PartialEq)]
pub enum Step {
    /// one top-level transaction: `sender` executes `msg` on contract `target` (label)
    Tx {
        sender: String,
        target: String,
        msg: Value,
        #[serde(default, skip_serializing_if = "Vec::is_empty")]
        funds: Vec<(String, String)>,
        #[serde(default, skip_serializing_if = "Option::is_none")]
        fault: Option<Fault>,
        #[serde(default, skip_serializing_if = "Vec::is_empty")]
        script: Vec<(String, SinkAct)>,
    },
    /// plain bank send (e.g. a donation straight to a contract)
    Bank {
        from: String,
        to: String,
        coins: Vec<(String, String)>,
    },
    /// advance the chain: height += dh, time += dt seconds
    Block {
        dh: u64,
        dt: u64,
        /// extra nanoseconds (block times are not aligned to whole seconds on a real chain)
        #[serde(default, skip_serializing_if = "is_zero")]
        dn: u64,
    },
    /// relayer / IBC-core event delivered to the ics20 contract
    Ibc {
        msg: IbcSudo,
        #[serde(default, skip_serializing_if = "Option::is_none")]
        fault: Option<Fault>,
    },
    /// migrate `target` (optionally after rewriting storage into an old layout)
    Migrate {
        target: String,
        msg: Value,
        #[serde(default, skip_serializing_if = "Option::is_none")]
        scenario: Option<String>,
    },
    /// C16 probe: query CanExecute{sender,msg} then submit Execute{msgs:[msg]} in the same block
    CanExec {
        sender: String,
        target: String,
        msg: Value,
    },
    /// end-of-run recovery phase (faults off, clock past all deadlines)
    Quiesce,
}

#[derive(Clone, Debug, Serialize, Deserialize)]
pub struct Trace {
    pub property: String,
    pub world: String,
    pub seed: u64,
    pub run: u64,
    pub config: Value,
    pub steps: Vec<Step>,
    /// listed known findings the run walks past instead of stopping at (so that they do not hide what lies
    /// behind them); part of the trace, so that replay stays a function of the file and the code alone
    #[serde(default, skip_serializing_if = "Vec::is_empty")]
    pub tolerate: Vec<Tolerated>,
}

#[derive(Clone, Debug, Serialize, Deserialize, PartialEq)]
pub struct Tolerated {
    pub property: String,
    pub class: String,
    #[serde(default)]
    pub facts: Value,
}

impl Tolerated {
    pub fn matches(&self, v: &Violation) -> bool {
        self.property == v.property
            && self.class == v.class
            && match (&self.facts, &v.facts) {
                (Value::Object(want), Value::Object(have)) => want.iter().all(|(kk, vv)| have.get(kk) == Some(vv)),
                (Value::Null, _) => true,
                (Value::Object(want), _) => want.is_empty(),
                _ => false,
            }
    }
}

/// move the violations of this step into `seen` (once per class + facts) if every one of them is tolerated;
/// returns false if the run has to stop here
pub fn walk_past(tolerate: &[Tolerated], viols: &mut Vec<Violation>, seen: &mut Vec<Violation>) -> bool {
    if viols.is_empty() {
        return true;
    }
    if tolerate.is_empty() || !viols.iter().all(|v| tolerate.iter().any(|t| t.matches(v))) {
        return false;
    }
    for v in viols.drain(..) {
        if !seen.iter().any(|k| k.class == v.class && k.facts == v.facts) {
            seen.push(v);
        }
    }
    true
}

#[derive(Clone, Debug, Serialize, Deserialize, PartialEq)]
pub struct Violation {
    pub property: String,
    /// stable class string, e.g. "C01/supply-ne-sum"
    pub class: String,
    /// index of the step at which it was detected
    pub step: usize,
    /// structured facts used for known-finding matching
    pub facts: Value,
    /// human-readable detail; never used for matching
    pub detail: String,
}

impl Violation {
    pub fn new(property: &str, class: &str, facts: Value, detail: String) -> Violation {
        Violation {
            property: property.to_string(),
            class: class.to_string(),
            step: 0,
            facts,
            detail,
        }
    }
}

#[derive(Clone, Debug, Serialize, Deserialize)]
pub struct ReplayFile {
    pub trace: Trace,
    pub violation: Violation,
    pub loghash: String,
    pub minimised_from_steps: usize,
}

pub fn coins(v: &[(String, String)]) -> Vec<cosmwasm_std::Coin> {
    v.iter()
        .map(|(d, a)| cosmwasm_std::Coin {
            denom: d.clone(),
            amount: cosmwasm_std::Uint128::new(a.parse::<u128>().unwrap_or(0)),
        })
        .collect()
}
