//! Seeded batches, replay, minimisation, known-finding matching and evidence.
use std::collections::{BTreeMap, BTreeSet};
use std::sync::atomic::{AtomicUsize, Ordering};
use std::sync::Mutex;

use serde::{Deserialize, Serialize};
use serde_json::{json, Value};

use crate::trace::{walk_past, ReplayFile, Step, Tolerated, Trace, Violation};
use crate::util::{derive_seed, Rng};
use crate::world::World;

pub struct RunOutput {
    pub trace: Trace,
    pub violations: Vec<Violation>,
    pub loghash: u64,
    pub probes: BTreeMap<&'static str, u64>,
    pub stats: BTreeMap<&'static str, u64>,
    pub states: BTreeSet<u64>,
    pub transitions: BTreeSet<u64>,
    pub signature: u64,
    pub nontrivial: bool,
    pub sim_blocks: u64,
    pub sim_seconds: u64,
    pub faulty_cfg: bool,
    pub sched: BTreeMap<&'static str, u64>,
}

fn finish<W: World>(w: W, trace: Trace, violations: Vec<Violation>, prop: &str) -> RunOutput {
    let m = w.meter();
    let mut lh = w.chain().loghash;
    for v in &violations {
        lh.str(&v.class);
        lh.u64(v.step as u64);
    }
    let mut sched: BTreeMap<&'static str, u64> = BTreeMap::new();
    {
        let st = &trace.steps;
        for (i, s) in st.iter().enumerate() {
            let is_tx = |x: &Step| matches!(x, Step::Tx { .. } | Step::Ibc { .. } | Step::CanExec { .. } | Step::Bank { .. } | Step::Migrate { .. });
            if is_tx(s) && i > 0 && is_tx(&st[i - 1]) {
                *sched.entry("txs_sharing_a_block_with_the_previous_tx").or_insert(0) += 1;
            }
            if let Step::Block { dh, dt, .. } = s {
                *sched.entry("block_cuts").or_insert(0) += 1;
                if *dh >= 100 || *dt >= 100_000 {
                    *sched.entry("large_clock_jumps").or_insert(0) += 1;
                }
                if *dh > 0 && *dt == 0 {
                    *sched.entry("height_advances_with_frozen_time").or_insert(0) += 1;
                }
            }
            if matches!(s, Step::Tx { .. }) && st[..i].iter().rev().take(6).any(|p| p == s) {
                *sched.entry("duplicate_tx_deliveries").or_insert(0) += 1;
            }
            if let Step::Tx { fault: Some(_), .. } | Step::Ibc { fault: Some(_), .. } = s {
                *sched.entry("faults_armed").or_insert(0) += 1;
            }
        }
    }
    RunOutput {
        sched,
        faulty_cfg: trace
            .config
            .get("faults")
            .and_then(|f| f.as_bool())
            .unwrap_or(false),
        trace,
        violations,
        loghash: lh.0,
        probes: m.probes.clone(),
        stats: w.chain().stats(),
        states: m.states.clone(),
        transitions: m.transitions.clone(),
        signature: m.signature(),
        nontrivial: w.nontrivial(prop),
        sim_blocks: m.sim_blocks,
        sim_seconds: m.sim_seconds,
    }
}

/// one generated run: config and every step drawn from a single PRNG in a fixed order
pub fn run_generated<W: World>(prop: &str, mon: &str, seed: u64, run: u64, thorough: bool) -> RunOutput {
    let mut rng = Rng::new(derive_seed(seed, prop, run));
    let config = W::gen_config(&mut rng, prop, thorough);
    let mut w = W::build(&config, mon);
    let n = w.planned_steps();
    let mut steps = vec![];
    let mut viols = vec![];
    let mut seen: Vec<Violation> = vec![];
    let tolerate: Vec<Tolerated> = TOLERATE
        .get()
        .map(|l| l.iter().filter(|t| world_of(&t.property).contains(&W::NAME)).cloned().collect())
        .unwrap_or_default();
    for _ in 0..n {
        // F2: a user retries — an earlier transaction is delivered again, unchanged
        let dup = rng.chance(1, 16);
        let recent: Vec<&Step> = steps.iter().rev().take(6).filter(|s: &&Step| matches!(s, Step::Tx { .. })).collect();
        let s = if dup && !recent.is_empty() {
            let pick = rng.below(recent.len() as u64) as usize;
            match recent[pick].clone() {
                Step::Tx { sender, target, msg, funds, script, .. } => Step::Tx { sender, target, msg, funds, fault: None, script },
                other => other,
            }
        } else {
            w.gen_step(&mut rng)
        };
        w.apply(&s, &mut viols);
        steps.push(s);
        if !walk_past(&tolerate, &mut viols, &mut seen) {
            break;
        }
    }
    if viols.is_empty() {
        let s = Step::Quiesce;
        w.apply(&s, &mut viols);
        steps.push(s);
        walk_past(&tolerate, &mut viols, &mut seen);
    }
    seen.extend(viols);
    let trace = Trace {
        property: prop.to_string(),
        world: W::NAME.to_string(),
        seed,
        run,
        config,
        steps,
        tolerate,
    };
    finish(w, trace, seen, prop)
}

/// replay: a pure function of the trace file and the code (no PRNG)
pub fn run_replay<W: World>(trace: &Trace, mon: &str) -> RunOutput {
    let mut w = W::build(&trace.config, mon);
    let mut viols = vec![];
    let mut seen: Vec<Violation> = vec![];
    for s in &trace.steps {
        w.apply(s, &mut viols);
        if !walk_past(&trace.tolerate, &mut viols, &mut seen) {
            break;
        }
    }
    seen.extend(viols);
    finish(w, trace.clone(), seen, &trace.property)
}

// ------------------------------------------------------------------------------------------
// dispatch

pub fn world_of(prop: &str) -> &'static [&'static str] {
    match prop {
        "C01" | "C02" | "C13" | "C19" => &["A"],
        "C07" | "C08" | "C16" | "C17" => &["B"],
        "C03" | "C05" | "C06" | "C09" | "C10" | "C14" | "C15" => &["C"],
        "C11" | "C12" | "C18" => &["D"],
        "C20" => &["A", "B", "C", "D"],
        _ => &[],
    }
}

pub fn gen_in(world: &str, prop: &str, mon: &str, seed: u64, run: u64, thorough: bool) -> RunOutput {
    match world {
        "A" => run_generated::<crate::world_a::WorldA>(prop, mon, seed, run, thorough),
        "B" => run_generated::<crate::world_b::WorldB>(prop, mon, seed, run, thorough),
        "C" => run_generated::<crate::world_c::WorldC>(prop, mon, seed, run, thorough),
        "D" => run_generated::<crate::world_d::WorldD>(prop, mon, seed, run, thorough),
        _ => panic!("unknown world {}", world),
    }
}

pub fn replay_in(trace: &Trace, mon: &str) -> RunOutput {
    match trace.world.as_str() {
        "A" => run_replay::<crate::world_a::WorldA>(trace, mon),
        "B" => run_replay::<crate::world_b::WorldB>(trace, mon),
        "C" => run_replay::<crate::world_c::WorldC>(trace, mon),
        "D" => run_replay::<crate::world_d::WorldD>(trace, mon),
        w => panic!("unknown world {}", w),
    }
}

// ------------------------------------------------------------------------------------------
// known findings

/// the listed findings, for `run_generated` (set once by the check command before any run starts)
pub static TOLERATE: std::sync::OnceLock<Vec<Tolerated>> = std::sync::OnceLock::new();

#[derive(Clone, Debug, Serialize, Deserialize)]
pub struct KnownFinding {
    pub property: String,
    pub class: String,
    /// every key listed here must be present with an equal value in the violation's facts
    #[serde(default)]
    pub facts: Value,
    pub what: String,
}

#[derive(Clone, Debug, Serialize, Deserialize, Default)]
pub struct FindingsFile {
    #[serde(default)]
    pub known: Vec<KnownFinding>,
    #[serde(default)]
    pub fixed: Vec<String>,
}

pub fn load_findings(path: &str) -> FindingsFile {
    match std::fs::read_to_string(path) {
        Ok(s) => serde_json::from_str(&s).expect("known_findings.json does not parse"),
        Err(_) => FindingsFile::default(),
    }
}

pub fn match_known<'a>(ff: &'a FindingsFile, v: &Violation) -> Option<&'a KnownFinding> {
    ff.known.iter().find(|k| {
        k.property == v.property
            && k.class == v.class
            && match (&k.facts, &v.facts) {
                (Value::Object(want), Value::Object(have)) => want.iter().all(|(kk, vv)| have.get(kk) == Some(vv)),
                (Value::Null, _) => true,
                (Value::Object(want), _) => want.is_empty(),
                _ => false,
            }
    })
}

// ------------------------------------------------------------------------------------------
// minimisation

fn same_violation(out: &RunOutput, target: &Violation, ff: &FindingsFile) -> Option<Violation> {
    out.violations
        .iter()
        .find(|v| {
            v.property == target.property
                && v.class == target.class
                && match_known(ff, v).is_some() == match_known(ff, target).is_some()
        })
        .cloned()
}

fn simpler_steps(s: &Step) -> Vec<Step> {
    let mut out = vec![];
    if let Step::Tx { sender, target, msg, funds, fault, script } = s {
        if fault.is_some() {
            out.push(Step::Tx {
                sender: sender.clone(),
                target: target.clone(),
                msg: msg.clone(),
                funds: funds.clone(),
                fault: None,
                script: script.clone(),
            });
        }
        if !script.is_empty() {
            out.push(Step::Tx {
                sender: sender.clone(),
                target: target.clone(),
                msg: msg.clone(),
                funds: funds.clone(),
                fault: fault.clone(),
                script: vec![],
            });
        }
    }
    if let Step::Block { dh, dt, .. } = s {
        if *dh > 1 {
            out.push(Step::Block { dh: 1, dt: *dt, dn: 0 });
        }
        if *dt > 0 && *dh > 0 {
            out.push(Step::Block { dh: *dh, dt: 0, dn: 0 });
        }
    }
    if let Step::Ibc { msg, fault: Some(_) } = s {
        out.push(Step::Ibc { msg: msg.clone(), fault: None });
    }
    out
}

/// ddmin over steps, then per-step simplification, keeping the same violation class
pub fn minimise(trace: &Trace, target: &Violation, mon: &str, ff: &FindingsFile, budget: usize) -> (Trace, Violation) {
    let mut best = trace.clone();
    let mut best_v = target.clone();
    // cut everything after the violating step
    if target.step + 1 < best.steps.len() {
        let mut t = best.clone();
        t.steps.truncate(target.step + 1);
        if let Some(v) = same_violation(&replay_in(&t, mon), target, ff) {
            best = t;
            best_v = v;
        }
    }
    // state probes (C20) run on a step cadence and at Quiesce: pin one to the end so that deleting
    // steps does not lose the probe
    if target.property == "C20" && !matches!(best.steps.last(), Some(Step::Quiesce)) {
        let mut t = best.clone();
        t.steps.push(Step::Quiesce);
        if let Some(v) = same_violation(&replay_in(&t, mon), target, ff) {
            best = t;
            best_v = v;
        }
    }
    let mut tries = 0usize;
    let mut chunk = (best.steps.len() / 2).max(1);
    while chunk >= 1 && tries < budget {
        let mut i = 0;
        let mut progressed = false;
        while i < best.steps.len() && tries < budget {
            let end = (i + chunk).min(best.steps.len());
            let mut t = best.clone();
            t.steps.drain(i..end);
            tries += 1;
            if let Some(v) = same_violation(&replay_in(&t, mon), target, ff) {
                best = t;
                best_v = v;
                progressed = true;
            } else {
                i += chunk;
            }
        }
        if chunk == 1 && !progressed {
            break;
        }
        if !progressed || chunk > 1 {
            chunk = if chunk > 1 { chunk / 2 } else { 1 };
        }
    }
    // per-step simplification
    let mut i = 0;
    while i < best.steps.len() && tries < budget {
        let mut changed = false;
        for cand in simpler_steps(&best.steps[i]) {
            let mut t = best.clone();
            t.steps[i] = cand;
            tries += 1;
            if let Some(v) = same_violation(&replay_in(&t, mon), target, ff) {
                best = t;
                best_v = v;
                changed = true;
                break;
            }
        }
        if !changed {
            i += 1;
        }
    }
    (best, best_v)
}

// ------------------------------------------------------------------------------------------
// batch

pub struct BatchCfg {
    pub prop: String,
    pub mon: String,
    pub tier: String,
    pub seed: u64,
    pub runs: u64,
    pub threads: usize,
    pub verif_dir: String,
}

pub struct RunSummary {
    pub world: String,
    pub run: u64,
    pub out: RunOutput,
}


/// order-independent aggregate over all runs of a batch (kept small: traces of clean runs are dropped)
#[derive(Default)]
pub struct Agg {
    pub runs: u64,
    pub nontrivial_runs: u64,
    pub faulty: u64,
    pub sigs: BTreeSet<u64>,
    pub states: BTreeSet<u64>,
    pub transitions: BTreeSet<u64>,
    pub probes: BTreeMap<String, u64>,
    pub stats: BTreeMap<String, u64>,
    pub sched: BTreeMap<String, u64>,
    pub blocks: u64,
    pub seconds: u64,
    pub steps: u64,
}

impl Agg {
    pub fn add(&mut self, o: &RunOutput) {
        self.runs += 1;
        if o.nontrivial {
            self.nontrivial_runs += 1;
            self.sigs.insert(o.signature);
        }
        if o.faulty_cfg {
            self.faulty += 1;
        }
        self.states.extend(o.states.iter());
        self.transitions.extend(o.transitions.iter());
        for (k, v) in &o.probes {
            *self.probes.entry(k.to_string()).or_insert(0) += v;
        }
        for (k, v) in &o.stats {
            *self.stats.entry(k.to_string()).or_insert(0) += v;
        }
        for (k, v) in &o.sched {
            *self.sched.entry(k.to_string()).or_insert(0) += v;
        }
        self.blocks = self.blocks.saturating_add(o.sim_blocks);
        self.seconds = self.seconds.saturating_add(o.sim_seconds);
        self.steps += o.trace.steps.len() as u64;
    }
}

pub fn run_batch(cfg: &BatchCfg, keep_first: usize) -> (Vec<RunSummary>, Agg) {
    let worlds = world_of(&cfg.prop);
    let thorough = cfg.tier == "thorough";
    let mut jobs: Vec<(String, u64)> = vec![];
    for w in worlds {
        let n = cfg.runs / worlds.len() as u64;
        for r in 0..n.max(1) {
            jobs.push((w.to_string(), r));
        }
    }
    let next = AtomicUsize::new(0);
    let results: Mutex<(Vec<Option<RunSummary>>, Agg)> = Mutex::new(((0..jobs.len()).map(|_| None).collect(), Agg::default()));
    std::thread::scope(|s| {
        for _ in 0..cfg.threads.max(1) {
            let _ = std::thread::Builder::new().stack_size(1 << 30).spawn_scoped(s, || loop {
                let i = next.fetch_add(1, Ordering::SeqCst);
                if i >= jobs.len() {
                    break;
                }
                let (w, r) = &jobs[i];
                let out = gen_in(w, &cfg.prop, &cfg.mon, cfg.seed, *r, thorough);
                let keep = i < keep_first || !out.violations.is_empty();
                let mut g = results.lock().unwrap();
                g.1.add(&out);
                if keep {
                    g.0[i] = Some(RunSummary {
                        world: w.clone(),
                        run: *r,
                        out,
                    });
                }
            });
        }
    });
    let (v, agg) = results.into_inner().unwrap();
    (v.into_iter().flatten().collect(), agg)
}

pub fn hex(v: u64) -> String {
    format!("{:016x}", v)
}

pub fn write_replay(dir: &str, prop: &str, seed: u64, run: u64, idx: usize, rf: &ReplayFile) -> String {
    let _ = std::fs::create_dir_all(dir);
    let path = format!("{}/{}-{}-{}-{}.json", dir, prop, seed, run, idx);
    std::fs::write(&path, serde_json::to_vec_pretty(rf).unwrap()).expect("write replay");
    path
}

/// run the replay file in a fresh process; Ok(true) iff it reproduces the same class and log hash
pub fn verify_fresh(path: &str, mon: &str, rf: &ReplayFile) -> Result<bool, String> {
    let exe = std::env::current_exe().map_err(|e| e.to_string())?;
    let out = std::process::Command::new(exe)
        .args(["replay", path, "--mon", mon])
        .env("RUST_BACKTRACE", "0")
        .env("RUST_LIB_BACKTRACE", "0")
        .output()
        .map_err(|e| e.to_string())?;
    let text = String::from_utf8_lossy(&out.stdout).to_string();
    let want = format!("REPLAY class={} loghash={}", rf.violation.class, rf.loghash);
    Ok(text.lines().any(|l| l.trim() == want))
}

pub fn evidence_json(
    cfg: &BatchCfg,
    level: &str,
    rule: &str,
    sums: &[RunSummary],
    agg: &Agg,
    violations: usize,
    known: &BTreeMap<String, u64>,
    wall: f64,
    determinism: &str,
    extra: Value,
) -> Value {
    let stats = &agg.stats;
    let probes = &agg.probes;
    let txs = stats.get("tx_ok").cloned().unwrap_or(0) + stats.get("tx_failed").cloned().unwrap_or(0);
    let samples: Vec<Value> = sums
        .iter()
        .filter(|s| s.out.nontrivial)
        .take(2)
        .map(|s| {
            let mut t = s.out.trace.clone();
            if t.steps.len() > 40 {
                t.steps.truncate(40);
            }
            serde_json::to_value(&t).unwrap()
        })
        .collect();
    let samples = if samples.is_empty() {
        sums.iter().take(1).map(|s| serde_json::to_value(&s.out.trace).unwrap()).collect()
    } else {
        samples
    };
    let zero_probes: Vec<String> = probes.iter().filter(|(_, v)| **v == 0).map(|(k, _)| k.clone()).collect();
    let runs = agg.runs;
    json!({
        "property_id": cfg.prop,
        "tier": cfg.tier,
        "seed": cfg.seed,
        "level": level,
        "coverage": {
            "evaluations": runs,
            "distinct_nontrivial": agg.sigs.len(),
            "rule": rule,
            "samples": samples,
            "states": agg.states.len(),
            "transitions": agg.transitions.len(),
            "nontrivial_runs": agg.nontrivial_runs,
            "steps_executed": agg.steps,
            "transactions": txs,
            "committed_ratio": if txs > 0 { stats.get("tx_ok").cloned().unwrap_or(0) as f64 / txs as f64 } else { 0.0 },
            "fault_free_runs": runs - agg.faulty,
            "fault_injecting_runs": agg.faulty,
            "faults_fired": {
                "sub_call_failed_early": stats.get("fault_early_fired").cloned().unwrap_or(0),
                "sub_call_failed_late": stats.get("fault_late_fired").cloned().unwrap_or(0),
                "sink_refused": stats.get("sink_fail_fired").cloned().unwrap_or(0),
                "sink_called_back": stats.get("sink_callback_fired").cloned().unwrap_or(0),
                "abort_inside_contract": stats.get("abort_in_contract").cloned().unwrap_or(0),
                "abort_outside_contract": stats.get("abort_outside_contract").cloned().unwrap_or(0),
            },
            "schedule_events": agg.sched,
            "reach_probes": probes,
            "probes_at_zero": zero_probes,
            "simulated_blocks": agg.blocks,
            "simulated_seconds": agg.seconds,
            "runs_per_hour": if wall > 0.0 { (runs as f64 / wall * 3600.0) as u64 } else { 0 },
            "seeds_per_hour": if wall > 0.0 { (runs as f64 / wall * 3600.0) as u64 } else { 0 },
            "determinism_selfcheck": determinism,
            "known_findings_seen": known,
            "components": {
                "real": ["cw20-base", "cw1-whitelist", "cw1-subkeys", "cw3-fixed-multisig", "cw3-flex-multisig", "cw4-group", "cw4-stake", "cw20-ics20", "packages cw1/cw20/cw3/cw4", "cw-storage-plus", "cw-utils", "cw-controllers", "cosmwasm-std", "bank keeper (cw-multi-test)"],
                "stub": ["chain / wasmd semantics: cw-multi-test 2.0.0 App", "staking, distribution, gov, stargate, ibc modules: recording stubs", "IBC core + relayer + remote chain: simulator", "counterpart contracts: programmable Sink", "old storage layouts: storage surgery"]
            },
            "extra": extra,
        },
        "assumptions": [
            "cw-multi-test transaction / sub-message / reply semantics match wasmd",
            "MockApi bech32 addresses and MockStorage byte ordering stand for the real chain",
            "sub-message gas limits are not metered: out-of-gas is an injected late failure",
            "sampling: a clean batch is evidence, not proof"
        ],
        "wall_s": wall,
        "violations": violations,
    })
}

#[allow(dead_code)]
pub fn unused(_: &Rng) {}

// ------------------------------------------------------------------------------------------
// systematic single-fault sweep over sampled fault-free traces

pub struct SweepStats {
    pub traces: u64,
    pub sites: u64,
    pub reexecutions: u64,
}

fn sites_of<W: World>(trace: &Trace, mon: &str) -> Vec<(usize, String, u32)> {
    let mut w = W::build(&trace.config, mon);
    let mut viols = vec![];
    let mut out = vec![];
    for (i, s) in trace.steps.iter().enumerate() {
        w.apply(s, &mut viols);
        if matches!(s, Step::Tx { .. } | Step::Ibc { .. }) {
            for (t, n) in w.chain().last_sites() {
                for k in 1..=n {
                    out.push((i, t.clone(), k));
                }
            }
        }
        if !viols.is_empty() {
            break;
        }
    }
    out
}

pub fn sites_in(trace: &Trace, mon: &str) -> Vec<(usize, String, u32)> {
    match trace.world.as_str() {
        "A" => sites_of::<crate::world_a::WorldA>(trace, mon),
        "B" => sites_of::<crate::world_b::WorldB>(trace, mon),
        "C" => sites_of::<crate::world_c::WorldC>(trace, mon),
        "D" => sites_of::<crate::world_d::WorldD>(trace, mon),
        _ => vec![],
    }
}

/// re-execute each trace once per (dispatch site x {early, late}); returns violating runs
pub fn sweep(traces: &[Trace], mon: &str, threads: usize, max_per_trace: usize) -> (Vec<RunOutput>, SweepStats) {
    use crate::chain::{Fault, FaultMode};
    let mut jobs: Vec<Trace> = vec![];
    let mut stats = SweepStats { traces: 0, sites: 0, reexecutions: 0 };
    for t in traces {
        // strip existing faults: the sweep wants exactly one
        let mut base = t.clone();
        for s in base.steps.iter_mut() {
            match s {
                Step::Tx { fault, .. } => *fault = None,
                Step::Ibc { fault, .. } => *fault = None,
                _ => {}
            }
        }
        let sites = sites_in(&base, mon);
        stats.traces += 1;
        stats.sites += sites.len() as u64;
        // spread evenly if there are too many
        let stride = (sites.len() * 2 / max_per_trace.max(1)).max(1);
        for (j, (i, target, k)) in sites.into_iter().enumerate() {
            if j % stride != 0 {
                continue;
            }
            for mode in [FaultMode::Early, FaultMode::Late] {
                let mut tt = base.clone();
                let f = Some(Fault { target: target.clone(), nth: k, mode });
                match &mut tt.steps[i] {
                    Step::Tx { fault, .. } => *fault = f,
                    Step::Ibc { fault, .. } => *fault = f,
                    _ => {}
                }
                jobs.push(tt);
            }
        }
    }
    stats.reexecutions = jobs.len() as u64;
    let next = AtomicUsize::new(0);
    let results: Mutex<Vec<Option<RunOutput>>> = Mutex::new((0..jobs.len()).map(|_| None).collect());
    std::thread::scope(|s| {
        for _ in 0..threads.max(1) {
            let _ = std::thread::Builder::new().stack_size(1 << 30).spawn_scoped(s, || loop {
                let i = next.fetch_add(1, Ordering::SeqCst);
                if i >= jobs.len() {
                    break;
                }
                let out = replay_in(&jobs[i], mon);
                results.lock().unwrap()[i] = Some(out);
            });
        }
    });
    let outs: Vec<RunOutput> = results.into_inner().unwrap().into_iter().map(|x| x.unwrap()).collect();
    (outs, stats)
}
