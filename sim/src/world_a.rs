//! World A — token: cw20-base + programmable Sinks. Monitors C01, C02, C13, C19 and the cw20 part of C20.
use std::collections::BTreeMap;

use cosmwasm_std::{BlockInfo, CosmosMsg, Env, ReplyOn, WasmMsg};
use cw20::{Cw20ExecuteMsg, Cw20ReceiveMsg};
use cw_utils::Expiration;
use serde::{Deserialize, Serialize};
use serde_json::{json, Value};

use crate::chain::{Chain, Entry, Event, Fault, FaultMode, Frame, Kind, SinkAct, TxResult};
use crate::paging::{check_paging, check_stale_cursors, LIMITS};
use crate::rawkeys;
use crate::snaps::{snap_cw20, Cw20Snap, Snap};
use crate::trace::{coins, Step, Violation};
use crate::util::{addr_of, amount_near, Fnv, Rng};
use crate::world::{bucket, Meter, World};

#[derive(Serialize, Deserialize, Clone, Debug)]
pub struct ACfg {
    pub users: Vec<String>,
    pub init: Value,
    pub bulk: usize,
    pub spb: u64,
    pub steps: usize,
    pub faults: bool,
    pub migrations: bool,
    pub probe_every: usize,
    pub profile: String,
}

pub fn expired(e: &Expiration, b: &BlockInfo) -> bool {
    match e {
        Expiration::AtHeight(h) => b.height >= *h,
        Expiration::AtTime(t) => b.time >= *t,
        Expiration::Never {} => false,
    }
}

type AllowRow = (String, u128, Expiration);

#[derive(Clone, Debug, PartialEq)]
struct ObsA {
    supply: u128,
    minter: Option<(String, Option<u128>)>,
    accounts: Vec<(String, u128)>,
    bal_u: Vec<u128>,
    allow: BTreeMap<(String, String), (u128, Expiration)>,
    by_owner: BTreeMap<String, Vec<AllowRow>>,
    by_spender: BTreeMap<String, Vec<AllowRow>>,
}

pub struct WorldA {
    cfg: ACfg,
    prop: String,
    pub chain: Chain,
    pub meter: Meter,
    universe: Vec<String>,
    roles: Vec<&'static str>,
    allow_u: Vec<usize>,
    users: Vec<String>,
    sinks: Vec<String>,
    bulk_addrs: Vec<String>,
    token: String,
    token_ok: bool,
    /// None: no minter at instantiation; Some(cap)
    cap0: Option<Option<u128>>,
    minter_gone: bool,
    last_supply: u128,
    granted: BTreeMap<(String, String), u128>,
    granted_sat: bool,
    drawn: BTreeMap<(String, String), u128>,
    obs: Option<ObsA>,
    step_idx: usize,
    deadlines_h: Vec<u64>,
    deadlines_t: Vec<u64>,
    page_rot: usize,
    pending: Vec<Violation>,
    queue: std::collections::VecDeque<Step>,
}

fn exp_json(e: &Expiration) -> Value {
    serde_json::to_value(e).unwrap()
}

fn wasm_exec(contract: &str, msg: &Value) -> Value {
    let c: CosmosMsg = CosmosMsg::Wasm(WasmMsg::Execute {
        contract_addr: contract.to_string(),
        msg: cosmwasm_std::Binary::from(serde_json::to_vec(msg).unwrap()),
        funds: vec![],
    });
    serde_json::to_value(c).unwrap()
}

impl WorldA {
    fn on(&self, p: &str) -> bool {
        self.prop == "ALL" || self.prop == p
    }

    fn idx(&self, a: &str) -> Option<usize> {
        self.universe.iter().position(|x| x == a)
    }

    fn role(&self, a: &str) -> &'static str {
        self.idx(a).map(|i| self.roles[i]).unwrap_or("other")
    }

    // ------------------------------------------------------------------ observation

    fn page_limit(&mut self) -> Option<u32> {
        const R: [Option<u32>; 5] = [None, Some(30), Some(7), Some(1), Some(100)];
        self.page_rot += 1;
        R[self.page_rot % R.len()]
    }

    fn list_accounts(&self, limit: Option<u32>) -> Result<Vec<String>, bool> {
        let mut out: Vec<String> = vec![];
        let mut cur: Option<String> = None;
        loop {
            let r: cw20::AllAccountsResponse = self
                .chain
                .query("token", &json!({"all_accounts":{"start_after":cur,"limit":limit}}))?;
            if r.accounts.is_empty() {
                break;
            }
            cur = r.accounts.last().cloned();
            out.extend(r.accounts);
            if out.len() > 10_000 {
                break;
            }
        }
        Ok(out)
    }

    fn list_owner(&self, owner: &str, limit: Option<u32>) -> Result<Vec<AllowRow>, bool> {
        let mut out = vec![];
        let mut cur: Option<String> = None;
        loop {
            let r: cw20::AllAllowancesResponse = self.chain.query(
                "token",
                &json!({"all_allowances":{"owner":owner,"start_after":cur,"limit":limit}}),
            )?;
            if r.allowances.is_empty() {
                break;
            }
            cur = r.allowances.last().map(|a| a.spender.clone());
            out.extend(
                r.allowances
                    .into_iter()
                    .map(|a| (a.spender, a.allowance.u128(), a.expires)),
            );
            if out.len() > 10_000 {
                break;
            }
        }
        Ok(out)
    }

    fn list_spender(&self, spender: &str, limit: Option<u32>) -> Result<Vec<AllowRow>, bool> {
        let mut out = vec![];
        let mut cur: Option<String> = None;
        loop {
            let r: cw20::AllSpenderAllowancesResponse = self.chain.query(
                "token",
                &json!({"all_spender_allowances":{"spender":spender,"start_after":cur,"limit":limit}}),
            )?;
            if r.allowances.is_empty() {
                break;
            }
            cur = r.allowances.last().map(|a| a.owner.clone());
            out.extend(
                r.allowances
                    .into_iter()
                    .map(|a| (a.owner, a.allowance.u128(), a.expires)),
            );
            if out.len() > 10_000 {
                break;
            }
        }
        Ok(out)
    }

    fn balance(&self, a: &str) -> Result<u128, bool> {
        let r: cw20::BalanceResponse = self.chain.query("token", &json!({"balance":{"address":a}}))?;
        Ok(r.balance.u128())
    }

    fn observe(&mut self) -> Result<ObsA, bool> {
        let ti: cw20::TokenInfoResponse = self.chain.query("token", &json!({"token_info":{}}))?;
        let minter: Option<cw20::MinterResponse> = self.chain.query("token", &json!({"minter":{}}))?;
        let lim = self.page_limit();
        let accts = self.list_accounts(lim)?;
        let mut accounts = vec![];
        for a in accts {
            let b = self.balance(&a)?;
            accounts.push((a, b));
        }
        let mut bal_u = vec![];
        for a in &self.universe {
            bal_u.push(self.balance(a)?);
        }
        let mut allow = BTreeMap::new();
        let mut by_owner = BTreeMap::new();
        let mut by_spender = BTreeMap::new();
        let au: Vec<String> = self.allow_u.iter().map(|i| self.universe[*i].clone()).collect();
        let lim2 = self.page_limit();
        for o in &au {
            by_owner.insert(o.clone(), self.list_owner(o, lim2)?);
            by_spender.insert(o.clone(), self.list_spender(o, lim2)?);
        }
        // point queries: always for pairs that appear in a listing, for every pair on each 4th step
        let full = self.step_idx % 4 == 0;
        for o in &au {
            for s in &au {
                if o == s {
                    continue;
                }
                let listed = by_owner.get(o).map(|r: &Vec<AllowRow>| r.iter().any(|x| &x.0 == s)).unwrap_or(false)
                    || by_spender.get(s).map(|r: &Vec<AllowRow>| r.iter().any(|x| &x.0 == o)).unwrap_or(false);
                if listed || full {
                    let r: cw20::AllowanceResponse = self
                        .chain
                        .query("token", &json!({"allowance":{"owner":o,"spender":s}}))?;
                    allow.insert((o.clone(), s.clone()), (r.allowance.u128(), r.expires));
                } else {
                    allow.insert((o.clone(), s.clone()), (0, Expiration::Never {}));
                }
            }
        }
        Ok(ObsA {
            supply: ti.total_supply.u128(),
            minter: minter.map(|m| (m.minter, m.cap.map(|c| c.u128()))),
            accounts,
            bal_u,
            allow,
            by_owner,
            by_spender,
        })
    }

    fn viol(&self, out: &mut Vec<Violation>, prop: &str, class: &str, facts: Value, detail: String) {
        if self.on(prop) {
            let mut v = Violation::new(prop, &format!("{}/{}", prop, class), facts, detail);
            v.step = self.step_idx;
            out.push(v);
        }
    }

    /// state invariants after every step
    fn check_state(&mut self, tx_failed: bool, out: &mut Vec<Violation>) {
        if !self.token_ok {
            return;
        }
        let obs = match self.observe() {
            Ok(o) => o,
            Err(abort) => {
                self.viol(
                    out,
                    "C01",
                    if abort { "query-abort" } else { "query-error" },
                    json!({}),
                    "observation query failed".into(),
                );
                return;
            }
        };
        // C01: supply == sum of listed balances; nothing hides outside the listing
        let mut sum: Option<u128> = Some(0);
        for (_, b) in &obs.accounts {
            sum = sum.and_then(|s| s.checked_add(*b));
        }
        if sum != Some(obs.supply) {
            self.viol(
                out,
                "C01",
                "supply-ne-sum",
                json!({}),
                format!("total_supply {} != sum of listed balances {:?}", obs.supply, sum),
            );
        }
        // C13: "the total supply never exceeds the cap" is about the tokens that exist, not only about the figure
        // the contract reports: what the listed accounts hold together stays within the cap
        if let Some((_, Some(cap))) = obs.minter.clone() {
            let over = match sum {
                Some(s) => s > cap,
                None => true,
            };
            if over {
                self.viol(
                    out,
                    "C13",
                    "tokens-in-circulation-above-cap",
                    json!({}),
                    format!("the listed accounts hold {:?} tokens, the cap is {} (reported supply {})", sum, cap, obs.supply),
                );
            }
        }
        {
            let mut seen = std::collections::BTreeSet::new();
            for (a, _) in &obs.accounts {
                if !seen.insert(a.clone()) {
                    self.viol(out, "C01", "account-listed-twice", json!({}), format!("{} listed twice", a));
                }
            }
            for (i, a) in self.universe.iter().enumerate() {
                if !seen.contains(a) && obs.bal_u[i] != 0 {
                    self.viol(
                        out,
                        "C01",
                        "balance-outside-listing",
                        json!({}),
                        format!("{} has balance {} but is not listed", a, obs.bal_u[i]),
                    );
                }
            }
        }
        // rule 4: a failed transaction changes nothing
        if tx_failed {
            if let Some(prev) = &self.obs {
                if prev.supply != obs.supply || prev.accounts != obs.accounts || prev.bal_u != obs.bal_u {
                    self.viol(
                        out,
                        "C01",
                        "failed-tx-changed-balances",
                        json!({}),
                        "a failed transaction changed supply or balances".into(),
                    );
                }
                if prev.allow != obs.allow || prev.by_owner != obs.by_owner || prev.by_spender != obs.by_spender {
                    self.viol(
                        out,
                        "C02",
                        "failed-tx-changed-allowances",
                        json!({}),
                        "a failed transaction changed allowances".into(),
                    );
                }
                if prev.minter != obs.minter {
                    self.viol(
                        out,
                        "C13",
                        "failed-tx-changed-minter",
                        json!({}),
                        "a failed transaction changed the minter".into(),
                    );
                }
            }
        }
        // C13: cap and minter history
        match self.cap0 {
            Some(Some(cap)) => {
                if obs.supply > cap {
                    self.viol(
                        out,
                        "C13",
                        "supply-above-cap",
                        json!({}),
                        format!("supply {} exceeds instantiation cap {}", obs.supply, cap),
                    );
                }
                if let Some((_, c)) = &obs.minter {
                    if *c != Some(cap) {
                        self.viol(
                            out,
                            "C13",
                            "cap-changed",
                            json!({}),
                            format!("minter cap {:?} differs from instantiation cap {}", c, cap),
                        );
                    }
                }
            }
            Some(None) => {}
            None => {}
        }
        if self.minter_gone || self.cap0.is_none() {
            if obs.minter.is_some() {
                self.viol(
                    out,
                    "C13",
                    "minter-reappeared",
                    json!({}),
                    "a minter exists although there was none / it was renounced".into(),
                );
            }
            if self.obs.is_some() && obs.supply > self.last_supply {
                self.viol(
                    out,
                    "C13",
                    "supply-rose-without-minter",
                    json!({}),
                    format!("supply rose {} -> {} with no minter", self.last_supply, obs.supply),
                );
            }
        }
        if obs.minter.is_none() {
            self.minter_gone = true;
        }
        self.last_supply = obs.supply;
        // C19: three views agree
        self.check_views(&obs, out);
        // abstract state
        let mut h = Fnv::new();
        h.u64(bucket(obs.supply));
        h.u64(obs.minter.is_some() as u64);
        for b in &obs.bal_u {
            h.u64(bucket(*b));
        }
        let block = self.chain.block();
        for ((_, _), (a, e)) in &obs.allow {
            h.u64(bucket(*a));
            h.u64(match e {
                Expiration::Never {} => 0,
                _ => 1 + expired(e, &block) as u64,
            });
        }
        self.meter.state(h.0);
        self.obs = Some(obs);
    }

    fn check_views(&mut self, obs: &ObsA, out: &mut Vec<Violation>) {
        let dflt = (0u128, Expiration::Never {});
        // every pair known from point queries or from any listing
        let mut pairs: Vec<(String, String)> = obs.allow.keys().cloned().collect();
        for (o, rows) in &obs.by_owner {
            for (s, _, _) in rows {
                pairs.push((o.clone(), s.clone()));
            }
        }
        for (s, rows) in &obs.by_spender {
            for (o, _, _) in rows {
                pairs.push((o.clone(), s.clone()));
            }
        }
        pairs.sort();
        pairs.dedup();
        let mut extra_owner: BTreeMap<String, Vec<AllowRow>> = BTreeMap::new();
        let mut extra_spender: BTreeMap<String, Vec<AllowRow>> = BTreeMap::new();
        for (o, s) in pairs {
            let point = match obs.allow.get(&(o.clone(), s.clone())) {
                Some(p) => p.clone(),
                None => match self
                    .chain
                    .query::<cw20::AllowanceResponse>("token", &json!({"allowance":{"owner":o,"spender":s}}))
                {
                    Ok(r) => (r.allowance.u128(), r.expires),
                    Err(_) => continue,
                },
            };
            let lo = if let Some(rows) = obs.by_owner.get(&o) {
                rows.clone()
            } else {
                if !extra_owner.contains_key(&o) {
                    let rows = self.list_owner(&o, Some(30)).unwrap_or_default();
                    extra_owner.insert(o.clone(), rows);
                }
                extra_owner[&o].clone()
            };
            let ls = if let Some(rows) = obs.by_spender.get(&s) {
                rows.clone()
            } else {
                if !extra_spender.contains_key(&s) {
                    let rows = self.list_spender(&s, Some(30)).unwrap_or_default();
                    extra_spender.insert(s.clone(), rows);
                }
                extra_spender[&s].clone()
            };
            let vo = lo
                .iter()
                .find(|r| r.0 == s)
                .map(|r| (r.1, r.2))
                .unwrap_or(dflt.clone());
            let vs = ls
                .iter()
                .find(|r| r.0 == o)
                .map(|r| (r.1, r.2))
                .unwrap_or(dflt.clone());
            if lo.iter().filter(|r| r.0 == s).count() > 1 || ls.iter().filter(|r| r.0 == o).count() > 1 {
                self.viol(out, "C19", "duplicate-listing-entry", json!({}), format!("{} -> {}", o, s));
            }
            // C02: an allowance "changes only by its owner's increase or decrease or by its spender's own draws" in
            // every view the token offers; the frame relations pin the owner-side views, so a by-spender entry with
            // another amount is an allowance that changed (or failed to change) without such a call
            if point.0 != vs.0 {
                self.viol(
                    out,
                    "C02",
                    "allowance-view-out-of-step",
                    json!({"view": "by-spender"}),
                    format!("owner {} spender {}: the allowance is {} (Allowance / AllAllowances), AllSpenderAllowances reports {}", o, s, point.0, vs.0),
                );
            }
            if point != vo || point != vs {
                self.meter.hit("c19_disagreement_seen");
                self.viol(
                    out,
                    "C19",
                    "views-disagree",
                    json!({"owner_view_ok": point == vo, "spender_view_ok": point == vs}),
                    format!(
                        "owner {} spender {}: Allowance={:?} AllAllowances={:?} AllSpenderAllowances={:?}",
                        o, s, point, vo, vs
                    ),
                );
            }
        }
    }

    // ------------------------------------------------------------------ per-frame relations

    fn check_frames(&mut self, events: &[Event], res: &TxResult, out: &mut Vec<Violation>) {
        let token = self.token.clone();
        let mut sends_expected: Vec<(String, Vec<u8>)> = vec![];
        let mut sink_got: Vec<(String, Vec<u8>)> = vec![];
        for ev in events {
            let f = match ev {
                Event::Frame(f) => f,
                _ => continue,
            };
            if f.kind == Kind::Sink && f.entry == Entry::Execute && f.sender == token && f.outcome.is_ok() {
                sink_got.push((f.addr.clone(), f.msg.clone()));
            }
            if f.addr != token || f.kind != Kind::Cw20 {
                continue;
            }
            let (pre, post) = match (f.pre.cw20(), f.post.cw20()) {
                (Some(a), Some(b)) => (a.clone(), b.clone()),
                _ => continue,
            };
            let resp = f.outcome.response().cloned();
            match f.entry {
                Entry::Execute => {
                    if let Some(resp) = resp {
                        self.check_exec_frame(f, &pre, &post, &resp, res, &mut sends_expected, out);
                    } else {
                        // the frame's own writes are discarded by the chain; nothing to relate
                    }
                }
                Entry::Migrate | Entry::Sudo => {
                    if f.entry == Entry::Migrate && resp.is_some() {
                        if pre.supply != post.supply || pre.bal != post.bal {
                            self.viol(
                                out,
                                "C01",
                                "migrate-changed-balances",
                                json!({}),
                                "migrate changed supply or balances".into(),
                            );
                        }
                        if pre.allow != post.allow {
                            self.viol(
                                out,
                                "C02",
                                "migrate-changed-allowances",
                                json!({}),
                                "migrate changed an allowance".into(),
                            );
                        }
                        if pre.minter != post.minter {
                            self.viol(out, "C13", "migrate-changed-minter", json!({}), "migrate changed the minter".into());
                        }
                    }
                }
                _ => {}
            }
        }
        if res.ok {
            sends_expected.sort();
            sink_got.sort();
            // only deliveries addressed to Sinks are observable
            let exp: Vec<_> = sends_expected
                .into_iter()
                .filter(|(a, _)| self.sinks.contains(a))
                .collect();
            if exp != sink_got {
                self.viol(
                    out,
                    "C02",
                    "receive-not-delivered-exactly-once",
                    json!({"expected": exp.len(), "got": sink_got.len()}),
                    format!("{} Send/SendFrom notifications expected, {} delivered", exp.len(), sink_got.len()),
                );
            }
        }
    }

    #[allow(clippy::too_many_arguments)]
    fn check_exec_frame(
        &mut self,
        f: &Frame,
        pre: &Cw20Snap,
        post: &Cw20Snap,
        resp: &cosmwasm_std::Response,
        res: &TxResult,
        sends_expected: &mut Vec<(String, Vec<u8>)>,
        out: &mut Vec<Violation>,
    ) {
        let msg: Cw20ExecuteMsg = match cosmwasm_std::from_json(&f.msg) {
            Ok(m) => m,
            Err(_) => {
                self.viol(out, "C01", "ok-on-unparsable-msg", json!({}), "execute returned Ok for a message that does not parse".into());
                return;
            }
        };
        let committed = res.ok && f.outcome.is_ok();
        let (ps, qs) = match (pre.supply, post.supply) {
            (Some(a), Some(b)) => (a, b),
            _ => return,
        };
        let n = self.universe.len();
        let sender = f.sender.clone();
        let si = self.idx(&sender);
        // expected balances over the universe, expected supply
        let mut exp = pre.bal.clone();
        let mut exp_supply = Some(ps);
        let mut arith_ok = true;
        let mut debit = |exp: &mut Vec<u128>, who: Option<usize>, a: u128, ok: &mut bool| {
            if let Some(i) = who {
                match exp[i].checked_sub(a) {
                    Some(v) => exp[i] = v,
                    None => *ok = false,
                }
            }
        };
        let credit = |exp: &mut Vec<u128>, who: Option<usize>, a: u128, ok: &mut bool| {
            if let Some(i) = who {
                match exp[i].checked_add(a) {
                    Some(v) => exp[i] = v,
                    None => *ok = false,
                }
            }
        };
        // expected allowances
        let mut exp_allow: Vec<Vec<(u128, Expiration)>> = pre.allow.clone();
        // (owner idx, spender idx, amount) of an allowance draw
        let mut draw: Option<(Option<usize>, String, u128)> = None;
        let mut kind = "other";
        let mut amount_tok = 0u128;
        let mut expect_msg: Option<(String, Cw20ReceiveMsg)> = None;
        match &msg {
            Cw20ExecuteMsg::Transfer { recipient, amount } => {
                kind = "transfer";
                amount_tok = amount.u128();
                debit(&mut exp, si, amount.u128(), &mut arith_ok);
                credit(&mut exp, self.idx(recipient), amount.u128(), &mut arith_ok);
            }
            Cw20ExecuteMsg::Send { contract, amount, msg } => {
                kind = "send";
                amount_tok = amount.u128();
                debit(&mut exp, si, amount.u128(), &mut arith_ok);
                credit(&mut exp, self.idx(contract), amount.u128(), &mut arith_ok);
                expect_msg = Some((
                    contract.clone(),
                    Cw20ReceiveMsg {
                        sender: sender.clone(),
                        amount: *amount,
                        msg: msg.clone(),
                    },
                ));
            }
            Cw20ExecuteMsg::Burn { amount } => {
                kind = "burn";
                amount_tok = amount.u128();
                debit(&mut exp, si, amount.u128(), &mut arith_ok);
                exp_supply = ps.checked_sub(amount.u128());
            }
            Cw20ExecuteMsg::Mint { recipient, amount } => {
                kind = "mint";
                amount_tok = amount.u128();
                credit(&mut exp, self.idx(recipient), amount.u128(), &mut arith_ok);
                exp_supply = ps.checked_add(amount.u128());
            }
            Cw20ExecuteMsg::TransferFrom { owner, recipient, amount } => {
                kind = "transfer_from";
                amount_tok = amount.u128();
                debit(&mut exp, self.idx(owner), amount.u128(), &mut arith_ok);
                credit(&mut exp, self.idx(recipient), amount.u128(), &mut arith_ok);
                draw = Some((self.idx(owner), owner.clone(), amount.u128()));
            }
            Cw20ExecuteMsg::SendFrom { owner, contract, amount, msg } => {
                kind = "send_from";
                amount_tok = amount.u128();
                debit(&mut exp, self.idx(owner), amount.u128(), &mut arith_ok);
                credit(&mut exp, self.idx(contract), amount.u128(), &mut arith_ok);
                draw = Some((self.idx(owner), owner.clone(), amount.u128()));
                expect_msg = Some((
                    contract.clone(),
                    Cw20ReceiveMsg {
                        sender: sender.clone(),
                        amount: *amount,
                        msg: msg.clone(),
                    },
                ));
            }
            Cw20ExecuteMsg::BurnFrom { owner, amount } => {
                kind = "burn_from";
                amount_tok = amount.u128();
                debit(&mut exp, self.idx(owner), amount.u128(), &mut arith_ok);
                exp_supply = ps.checked_sub(amount.u128());
                draw = Some((self.idx(owner), owner.clone(), amount.u128()));
            }
            Cw20ExecuteMsg::IncreaseAllowance { spender, amount, .. } => {
                kind = "increase_allowance";
                amount_tok = amount.u128();
                if let (Some(o), Some(s)) = (si, self.idx(spender)) {
                    match exp_allow[o][s].0.checked_add(amount.u128()) {
                        Some(v) => exp_allow[o][s].0 = v,
                        None => arith_ok = false,
                    }
                }
                if committed {
                    let e = self.granted.entry((sender.clone(), spender.clone())).or_insert(0);
                    match e.checked_add(amount.u128()) {
                        Some(v) => *e = v,
                        None => {
                            *e = u128::MAX;
                            self.granted_sat = true;
                        }
                    }
                }
            }
            Cw20ExecuteMsg::DecreaseAllowance { spender, amount, .. } => {
                kind = "decrease_allowance";
                amount_tok = amount.u128();
                if let (Some(o), Some(s)) = (si, self.idx(spender)) {
                    exp_allow[o][s].0 = exp_allow[o][s].0.saturating_sub(amount.u128());
                }
            }
            Cw20ExecuteMsg::UpdateMinter { .. } => kind = "update_minter",
            _ => kind = "marketing",
        }
        // C02: the draw itself
        if let Some((oi, owner, a)) = &draw {
            if let (Some(o), Some(s)) = (oi, si) {
                let (pa, pe) = pre.allow[*o][s].clone();
                let was_expired = expired(&pe, &f.block);
                if was_expired {
                    self.meter.hit("draw_on_expired_allowance_succeeded");
                    self.viol(
                        out,
                        "C02",
                        "draw-on-expired-allowance",
                        json!({}),
                        format!("{} drew {} of {}'s tokens on an allowance expired at {:?}", sender, a, owner, pe),
                    );
                }
                if pre.bal[*o] < *a {
                    // the allowance is lowered by `a` "while moving exactly that amount": the owner must have held it
                    self.viol(
                        out,
                        "C02",
                        "draw-exceeds-owner-balance",
                        json!({"recipient_is_owner": pre.bal == post.bal}),
                        format!("{} drew {} of {}'s tokens, the owner held only {}", sender, a, owner, pre.bal[*o]),
                    );
                }
                if pa < *a {
                    self.viol(
                        out,
                        "C02",
                        "draw-exceeds-allowance",
                        json!({}),
                        format!("{} drew {} with allowance {}", sender, a, pa),
                    );
                } else {
                    exp_allow[*o][s].0 = pa - *a;
                    if pa == *a {
                        self.meter.hit("draw_exactly_allowance");
                    }
                }
                match &pe {
                    Expiration::AtHeight(h) if *h == f.block.height + 1 => self.meter.hit("draw_one_block_before_expiry"),
                    Expiration::AtTime(t) if t.seconds() == f.block.time.seconds() + 1 => {
                        self.meter.hit("draw_one_second_before_expiry")
                    }
                    _ => {}
                }
            }
            if committed {
                let k = (owner.clone(), sender.clone());
                let d = self.drawn.entry(k.clone()).or_insert(0);
                *d = d.saturating_add(*a);
                let g = self.granted.get(&k).cloned().unwrap_or(0);
                if *d > g && !self.granted_sat {
                    let (dv, gv) = (*d, g);
                    self.viol(
                        out,
                        "C02",
                        "cumulative-draws-exceed-grants",
                        json!({}),
                        format!("{} has drawn {} of {}'s tokens, only {} was ever granted", sender, dv, owner, gv),
                    );
                }
            }
        }
        // C01: exact deltas
        if !arith_ok || exp_supply.is_none() {
            self.viol(
                out,
                "C01",
                "ok-despite-impossible-arithmetic",
                json!({"kind": kind}),
                format!("{} of {} returned Ok although balances cannot cover it", kind, amount_tok),
            );
        } else {
            if Some(qs) != exp_supply {
                self.viol(
                    out,
                    "C01",
                    "frame-supply-delta",
                    json!({"kind": kind}),
                    format!("{}: supply {} -> {}, expected {:?}", kind, ps, qs, exp_supply),
                );
            }
            if post.bal != exp {
                let i = (0..n).find(|i| post.bal[*i] != exp[*i]).unwrap_or(0);
                self.viol(
                    out,
                    "C01",
                    "frame-balance-delta",
                    json!({"kind": kind}),
                    format!(
                        "{} of {} by {}: balance of {} is {} (was {}), expected {}",
                        kind, amount_tok, self.role(&sender), self.universe[i], post.bal[i], pre.bal[i], exp[i]
                    ),
                );
            }
        }
        // C02: every decrease is explained
        for i in 0..n {
            if post.bal[i] < pre.bal[i] {
                let explained = match &msg {
                    Cw20ExecuteMsg::Transfer { .. } | Cw20ExecuteMsg::Send { .. } | Cw20ExecuteMsg::Burn { .. } => {
                        Some(i) == si
                    }
                    Cw20ExecuteMsg::TransferFrom { owner, .. }
                    | Cw20ExecuteMsg::SendFrom { owner, .. }
                    | Cw20ExecuteMsg::BurnFrom { owner, .. } => Some(i) == self.idx(owner),
                    _ => false,
                };
                if !explained {
                    self.viol(
                        out,
                        "C02",
                        "unexplained-balance-decrease",
                        json!({"kind": kind}),
                        format!("{}: balance of {} fell {} -> {}", kind, self.universe[i], pre.bal[i], post.bal[i]),
                    );
                }
            }
        }
        // C02: allowances: amounts exactly as expected; expiries untouched except on the granted cell
        for &o in &self.allow_u.clone() {
            for &s in &self.allow_u.clone() {
                if o == s {
                    continue;
                }
                let touched_cell = match &msg {
                    Cw20ExecuteMsg::IncreaseAllowance { spender, .. }
                    | Cw20ExecuteMsg::DecreaseAllowance { spender, .. } => Some(o) == si && Some(s) == self.idx(spender),
                    _ => false,
                };
                if touched_cell && post.allow[o][s].0 != 0 && post.allow[o][s].0 == exp_allow[o][s].0 {
                    // the owner's call also decides the expiry: the one it named, else the one the allowance had
                    let named = match &msg {
                        Cw20ExecuteMsg::IncreaseAllowance { expires, .. } | Cw20ExecuteMsg::DecreaseAllowance { expires, .. } => *expires,
                        _ => None,
                    };
                    let want = named.unwrap_or(pre.allow[o][s].1);
                    if post.allow[o][s].1 != want {
                        self.viol(
                            out,
                            "C02",
                            "allowance-expiry-ne-request",
                            json!({"kind": kind, "expires_named": named.is_some()}),
                            format!("{}: allowance {}->{} now expires {:?}, the owner's call implies {:?}", kind, self.universe[o], self.universe[s], post.allow[o][s].1, want),
                        );
                    }
                }
                if post.allow[o][s].0 != exp_allow[o][s].0 {
                    self.viol(
                        out,
                        "C02",
                        "allowance-amount",
                        json!({"kind": kind}),
                        format!(
                            "{} by {}: allowance {}->{} is {} (was {}), expected {}",
                            kind,
                            self.role(&sender),
                            self.universe[o],
                            self.universe[s],
                            post.allow[o][s].0,
                            pre.allow[o][s].0,
                            exp_allow[o][s].0
                        ),
                    );
                } else if !touched_cell && post.allow[o][s].0 != 0 && post.allow[o][s].1 != pre.allow[o][s].1 {
                    self.viol(
                        out,
                        "C02",
                        "allowance-expiry-changed",
                        json!({"kind": kind}),
                        format!("{}: expiry of allowance {}->{} changed", kind, self.universe[o], self.universe[s]),
                    );
                }
            }
        }
        // C02: notification
        match &expect_msg {
            Some((contract, rm)) => {
                let ok = resp.messages.len() == 1 && {
                    let sm = &resp.messages[0];
                    sm.reply_on == ReplyOn::Never
                        && sm.gas_limit.is_none()
                        && match &sm.msg {
                            CosmosMsg::Wasm(WasmMsg::Execute { contract_addr, msg, funds }) => {
                                contract_addr == contract
                                    && funds.is_empty()
                                    && match cosmwasm_std::from_json::<Value>(msg) {
                                        Ok(v) => {
                                            let inner: Option<Cw20ReceiveMsg> = v
                                                .get("receive")
                                                .and_then(|r| serde_json::from_value(r.clone()).ok());
                                            v.as_object().map(|o| o.len()) == Some(1) && inner.as_ref() == Some(rm)
                                        }
                                        Err(_) => false,
                                    }
                            }
                            _ => false,
                        }
                };
                if !ok {
                    self.viol(
                        out,
                        "C02",
                        "receive-notification-wrong",
                        json!({"kind": kind}),
                        format!("{}: Response.messages is not exactly one Receive naming the initiator, amount and payload", kind),
                    );
                } else if f.outcome.is_ok() {
                    if let CosmosMsg::Wasm(WasmMsg::Execute { msg, .. }) = &resp.messages[0].msg {
                        sends_expected.push((contract.clone(), msg.to_vec()));
                    }
                }
            }
            None => {
                if !resp.messages.is_empty() {
                    self.viol(
                        out,
                        "C02",
                        "unexpected-dispatch",
                        json!({"kind": kind}),
                        format!("{} emitted {} messages", kind, resp.messages.len()),
                    );
                }
            }
        }
        // C13
        let pm = pre.minter.clone().flatten();
        let qm = post.minter.clone().flatten();
        {
            // "tokens are created only by a Mint call from the current minter": the tokens themselves, not only the
            // supply figure — what the observed accounts hold together grows in no other call
            let sum = |v: &[u128]| v.iter().fold(Some(0u128), |a, b| a.and_then(|x| x.checked_add(*b)));
            if let (Some(a), Some(b)) = (sum(&pre.bal), sum(&post.bal)) {
                let is_mint = matches!(msg, Cw20ExecuteMsg::Mint { .. });
                let by_minter = pm.as_ref().map(|m| m.0 == sender).unwrap_or(false);
                if b > a && !(is_mint && by_minter) {
                    self.viol(
                        out,
                        "C13",
                        "tokens-created-outside-mint",
                        json!({"kind": kind}),
                        format!("{} by {}: the observed accounts held {} before and {} after", kind, self.role(&sender), a, b),
                    );
                }
                if is_mint && b > a && b - a > amount_tok {
                    self.viol(
                        out,
                        "C13",
                        "tokens-created-outside-mint",
                        json!({"kind": "mint-credited-more-than-minted"}),
                        format!("Mint of {} credited {} to the observed accounts", amount_tok, b - a),
                    );
                }
            }
        }
        if qs > ps {
            let is_mint = matches!(msg, Cw20ExecuteMsg::Mint { .. });
            let by_minter = pm.as_ref().map(|m| m.0 == sender).unwrap_or(false);
            if !is_mint || !by_minter {
                self.viol(
                    out,
                    "C13",
                    "supply-raised-by-non-minter",
                    json!({"kind": kind}),
                    format!("{} by {} raised supply {} -> {}; minter was {:?}", kind, self.role(&sender), ps, qs, pm),
                );
            }
        }
        if let Cw20ExecuteMsg::Mint { .. } = &msg {
            let by_minter = pm.as_ref().map(|m| m.0 == sender).unwrap_or(false);
            if !by_minter {
                self.viol(
                    out,
                    "C13",
                    "mint-ok-for-non-minter",
                    json!({}),
                    format!("Mint by {} succeeded; minter was {:?}", self.role(&sender), pm),
                );
            }
            if let Some((_, Some(cap))) = &pm {
                if qs > *cap {
                    self.viol(out, "C13", "mint-above-cap", json!({}), format!("supply {} > cap {}", qs, cap));
                }
                // in exact arithmetic: whatever the contract reports afterwards, tokens were created beyond the cap
                let fits = ps.checked_add(amount_tok).map(|v| v <= *cap).unwrap_or(false);
                if !fits {
                    self.viol(
                        out,
                        "C13",
                        "mint-accepted-beyond-cap",
                        json!({"reported_supply_within_cap": qs <= *cap}),
                        format!("Mint of {} accepted at supply {} with cap {}: supply + amount exceeds the cap (reported supply afterwards: {})", amount_tok, ps, cap, qs),
                    );
                }
                if qs == *cap {
                    self.meter.hit("mint_to_exactly_cap");
                }
            }
        }
        if let Cw20ExecuteMsg::UpdateMinter { new_minter } = &msg {
            let by_minter = pm.as_ref().map(|m| m.0 == sender).unwrap_or(false);
            if !by_minter {
                self.viol(
                    out,
                    "C13",
                    "update-minter-ok-for-non-minter",
                    json!({}),
                    format!("UpdateMinter by {} succeeded; minter was {:?}", self.role(&sender), pm),
                );
            }
            let want = new_minter.clone().map(|m| (m, pm.as_ref().and_then(|p| p.1)));
            if qm != want {
                self.viol(
                    out,
                    "C13",
                    "update-minter-result",
                    json!({}),
                    format!("UpdateMinter to {:?}: minter is now {:?}, expected {:?}", new_minter, qm, want),
                );
            }
            if new_minter.is_none() {
                self.meter.hit("minter_renounced");
            } else {
                self.meter.hit("minter_handed_over");
            }
        } else if pm != qm {
            self.viol(
                out,
                "C13",
                "minter-changed-outside-update-minter",
                json!({"kind": kind}),
                format!("{} changed the minter {:?} -> {:?}", kind, pm, qm),
            );
        }
        // signature token
        let role = self.role(&sender);
        self.meter
            .token(kind, role, if committed { "committed" } else { "rolled-back" }, bucket(amount_tok));
        match kind {
            "transfer_from" | "send_from" | "burn_from" => self.meter.flag("draw_ok"),
            "mint" => self.meter.flag("mint_ok"),
            "burn" => self.meter.flag("burn_ok"),
            "send" => self.meter.flag("send_ok"),
            "update_minter" => self.meter.flag("update_minter_ok"),
            "increase_allowance" | "decrease_allowance" => self.meter.flag("allow_change_ok"),
            _ => {}
        }
        if f.sender != self.universe[0] && self.role(&f.sender) == "sink" {
            self.meter.hit("reentrant_or_nested_token_call");
        }
    }

    // ------------------------------------------------------------------ C20 probe

    fn probe_c20(&mut self, full: bool, out: &mut Vec<Violation>) {
        if !self.token_ok || !self.on("C20") {
            return;
        }
        let dump = self.chain.dump("token");
        let limits: Vec<Option<u32>> = if full {
            LIMITS.to_vec()
        } else {
            vec![None, Some(1), Some(30), Some(31)]
        };
        let mut pages = 0u64;
        // accounts
        let expected: Vec<String> = rawkeys::entries(&dump, "balance")
            .into_iter()
            .map(|(k, _)| String::from_utf8_lossy(&k).to_string())
            .collect();
        let chain = &self.chain;
        let r = check_paging::<String, String>(
            &expected,
            &|cur, lim| {
                chain
                    .query::<cw20::AllAccountsResponse>("token", &json!({"all_accounts":{"start_after":cur,"limit":lim}}))
                    .map(|r| r.accounts)
            },
            &|i| i.clone(),
            &limits,
            &mut pages,
        );
        if expected.len() > 30 {
            self.meter.hit("c20_listing_over_30");
        }
        if expected.len() == 30 || expected.len() == 10 {
            self.meter.hit("c20_listing_exactly_on_boundary");
        }
        let r = r.and_then(|_| {
            // cursors that are valid addresses without a balance row
            let stale: Vec<String> = (0..4).map(|i| crate::util::addr_of(&format!("nobody{}", i))).collect();
            check_stale_cursors::<String, String>(
                &expected,
                &|cur, lim| {
                    chain
                        .query::<cw20::AllAccountsResponse>("token", &json!({"all_accounts":{"start_after":cur,"limit":lim}}))
                        .map(|r| r.accounts)
                },
                &|i| i.clone(),
                &stale,
            )
        });
        if let Err((c, d)) = r {
            self.viol(out, "C20", &format!("cw20-all-accounts/{}", c), json!({"list":"all_accounts"}), d);
        }
        // allowances by owner / by spender
        let parse = |v: &[u8]| -> Option<(u128, Expiration)> {
            let a: cw20::AllowanceResponse = cosmwasm_std::from_json(v).ok()?;
            Some((a.allowance.u128(), a.expires))
        };
        let mut owners: BTreeMap<String, Vec<AllowRow>> = BTreeMap::new();
        for (k, v) in rawkeys::entries(&dump, "allowance") {
            if let (Some((a, b)), Some((amt, e))) = (rawkeys::split2(&k), parse(&v)) {
                owners
                    .entry(String::from_utf8_lossy(&a).to_string())
                    .or_default()
                    .push((String::from_utf8_lossy(&b).to_string(), amt, e));
            }
        }
        let mut spenders: BTreeMap<String, Vec<AllowRow>> = BTreeMap::new();
        for (k, v) in rawkeys::entries(&dump, "allowance_spender") {
            if let (Some((a, b)), Some((amt, e))) = (rawkeys::split2(&k), parse(&v)) {
                spenders
                    .entry(String::from_utf8_lossy(&a).to_string())
                    .or_default()
                    .push((String::from_utf8_lossy(&b).to_string(), amt, e));
            }
        }
        // also probe a user with no allowances at all
        for u in self.users.iter().take(3) {
            owners.entry(u.clone()).or_default();
            spenders.entry(u.clone()).or_default();
        }
        let mut viols: Vec<(String, String, String)> = vec![];
        // the longest listings first (they are the ones that need pages), then a few short ones
        let by_len = |m: &BTreeMap<String, Vec<AllowRow>>| -> Vec<(String, Vec<AllowRow>)> {
            let mut v: Vec<(String, Vec<AllowRow>)> = m.iter().map(|(k, r)| (k.clone(), r.clone())).collect();
            v.sort_by(|a, b| b.1.len().cmp(&a.1.len()).then(a.0.cmp(&b.0)));
            v.truncate(6);
            v
        };
        let owners_probe = by_len(&owners);
        let spenders_probe = by_len(&spenders);
        for (o, rows) in owners_probe.iter() {
            let r = check_paging::<AllowRow, String>(
                rows,
                &|cur, lim| {
                    chain
                        .query::<cw20::AllAllowancesResponse>(
                            "token",
                            &json!({"all_allowances":{"owner":o,"start_after":cur,"limit":lim}}),
                        )
                        .map(|r| {
                            r.allowances
                                .into_iter()
                                .map(|a| (a.spender, a.allowance.u128(), a.expires))
                                .collect()
                        })
                },
                &|i| i.0.clone(),
                &limits,
                &mut pages,
            );
            if let Err((c, d)) = r {
                viols.push(("all_allowances".into(), c, d));
            }
        }
        for (s, rows) in spenders_probe.iter() {
            let r = check_paging::<AllowRow, String>(
                rows,
                &|cur, lim| {
                    chain
                        .query::<cw20::AllSpenderAllowancesResponse>(
                            "token",
                            &json!({"all_spender_allowances":{"spender":s,"start_after":cur,"limit":lim}}),
                        )
                        .map(|r| {
                            r.allowances
                                .into_iter()
                                .map(|a| (a.owner, a.allowance.u128(), a.expires))
                                .collect()
                        })
                },
                &|i| i.0.clone(),
                &limits,
                &mut pages,
            );
            if let Err((c, d)) = r {
                viols.push(("all_spender_allowances".into(), c, d));
            }
        }
        // every listed row is a *current* item: it must agree with the point query for the same key
        let mut cross: Vec<(String, String)> = vec![];
        for (o, rows) in owners_probe.iter() {
            for (sp, amt, e) in rows.iter().take(12) {
                if let Ok(a) = chain.query::<cw20::AllowanceResponse>("token", &json!({"allowance":{"owner":o,"spender":sp}})) {
                    if (a.allowance.u128(), a.expires) != (*amt, *e) {
                        cross.push(("all_allowances".into(), format!("owner {} spender {}: listed ({}, {:?}) but Allowance says ({}, {:?})", o, sp, amt, e, a.allowance, a.expires)));
                    }
                }
            }
        }
        for (sp, rows) in spenders_probe.iter() {
            for (o, amt, e) in rows.iter().take(12) {
                if let Ok(a) = chain.query::<cw20::AllowanceResponse>("token", &json!({"allowance":{"owner":o,"spender":sp}})) {
                    if (a.allowance.u128(), a.expires) != (*amt, *e) {
                        cross.push(("all_spender_allowances".into(), format!("spender {} owner {}: listed ({}, {:?}) but Allowance says ({}, {:?})", sp, o, amt, e, a.allowance, a.expires)));
                    }
                }
            }
        }
        for (a, b) in rawkeys::entries(&dump, "balance").into_iter().take(40) {
            let addr = String::from_utf8_lossy(&a).to_string();
            let stored: Option<cosmwasm_std::Uint128> = cosmwasm_std::from_json(&b).ok();
            if let (Ok(q), Some(st)) = (chain.query::<cw20::BalanceResponse>("token", &json!({"balance":{"address":addr}})), stored) {
                if q.balance != st {
                    cross.push(("all_accounts".into(), format!("{}: stored {} but Balance says {}", addr, st, q.balance)));
                }
            }
        }
        for (l, d) in cross {
            viols.push((l, "listed-item-ne-point-query".into(), d));
        }
        // and every current item is listed: an allowance record that one listing returns is a current item of the
        // other listing too (the listings were compared with their tables above)
        for (o, rows) in owners.iter() {
            for (sp, amt, _) in rows.iter().take(40) {
                let there = spenders.get(sp).map(|r| r.iter().any(|x| &x.0 == o)).unwrap_or(false);
                if !there {
                    viols.push(("all_spender_allowances".into(), "current-item-not-listed".into(), format!("allowance {} -> {} ({}) is returned by the owner listing but not by the spender listing", o, sp, amt)));
                }
            }
        }
        for (sp, rows) in spenders.iter() {
            for (o, amt, _) in rows.iter().take(40) {
                let there = owners.get(o).map(|r| r.iter().any(|x| &x.0 == sp)).unwrap_or(false);
                if !there {
                    viols.push(("all_allowances".into(), "current-item-not-listed".into(), format!("allowance {} -> {} ({}) is returned by the spender listing but not by the owner listing", o, sp, amt)));
                }
            }
        }
        for o in self.users.iter().take(5) {
            for sp in self.users.iter().take(5) {
                if o == sp {
                    continue;
                }
                if let Ok(a) = chain.query::<cw20::AllowanceResponse>("token", &json!({"allowance":{"owner":o,"spender":sp}})) {
                    if !a.allowance.is_zero() {
                        let in_o = owners.get(o).map(|r| r.iter().any(|x| &x.0 == sp)).unwrap_or(false);
                        let in_s = spenders.get(sp).map(|r| r.iter().any(|x| &x.0 == o)).unwrap_or(false);
                        if !in_o {
                            viols.push(("all_allowances".into(), "current-item-not-listed".into(), format!("allowance {} -> {} of {} is not in the owner listing", o, sp, a.allowance)));
                        }
                        if !in_s {
                            viols.push(("all_spender_allowances".into(), "current-item-not-listed".into(), format!("allowance {} -> {} of {} is not in the spender listing", o, sp, a.allowance)));
                        }
                    }
                }
            }
        }
        for (l, c, d) in viols {
            self.viol(out, "C20", &format!("cw20-{}/{}", l.replace('_', "-"), c), json!({"list": l}), d);
        }
        *self.meter.probes.entry("c20_pages_walked").or_insert(0) += pages;
        self.meter.flag("c20_probed");
    }

    // ------------------------------------------------------------------ generation helpers

    fn gen_expiry(&mut self, rng: &mut Rng) -> Option<Expiration> {
        let b = self.chain.block();
        match rng.below(10) {
            0..=3 => None,
            4 => Some(Expiration::Never {}),
            5..=7 => {
                let d = *rng.pick(&[0u64, 1, 1, 2, 3, 10]);
                let h = b.height + d;
                self.deadlines_h.push(h);
                Some(Expiration::AtHeight(h))
            }
            _ => {
                let d = *rng.pick(&[0u64, 1, 2, 3, 10]) * self.cfg.spb.max(1);
                let t = b.time.plus_seconds(d);
                self.deadlines_t.push(t.nanos());
                Some(Expiration::AtTime(t))
            }
        }
    }

    fn bal_of(&self, a: &str) -> u128 {
        self.idx(a)
            .and_then(|i| self.obs.as_ref().map(|o| o.bal_u[i]))
            .unwrap_or(0)
    }

    fn allow_of(&self, o: &str, s: &str) -> u128 {
        self.obs
            .as_ref()
            .and_then(|ob| ob.allow.get(&(o.to_string(), s.to_string())).map(|x| x.0))
            .unwrap_or(0)
    }

    fn pick_actor(&self, rng: &mut Rng) -> String {
        rng.pick(&self.users).clone()
    }

    fn pick_any(&self, rng: &mut Rng) -> String {
        if !self.bulk_addrs.is_empty() && rng.chance(1, 12) {
            return rng.pick(&self.bulk_addrs).clone();
        }
        rng.pick(&self.universe).clone()
    }

    /// one token message as (msg json, kind) issued by `actor`
    fn gen_token_msg(&mut self, rng: &mut Rng, actor: &str, w: &[u32; 10]) -> Value {
        let k = rng.weighted(w);
        let mybal = self.bal_of(actor);
        match k {
            0 => json!({"transfer":{"recipient": self.pick_any(rng), "amount": amount_near(rng, mybal).to_string()}}),
            1 => {
                let target = if rng.chance(4, 5) { rng.pick(&self.sinks).clone() } else { self.pick_any(rng) };
                json!({"send":{"contract": target, "amount": amount_near(rng, mybal).to_string(), "msg": gen_payload(rng)}})
            }
            2 => json!({"burn":{"amount": amount_near(rng, mybal).to_string()}}),
            3 => {
                let cap_room = match (&self.obs, self.cap0) {
                    (Some(o), Some(Some(cap))) => cap.saturating_sub(o.supply),
                    _ => 1000,
                };
                json!({"mint":{"recipient": self.pick_any(rng), "amount": amount_near(rng, cap_room).to_string()}})
            }
            4 => {
                let sp = self.universe[*rng.pick(&self.allow_u)].clone();
                let e = self.gen_expiry(rng);
                json!({"increase_allowance":{"spender": sp, "amount": amount_near(rng, mybal.max(10)).to_string(), "expires": e.as_ref().map(exp_json)}})
            }
            5 => {
                let sp = self.universe[*rng.pick(&self.allow_u)].clone();
                let cur = self.allow_of(actor, &sp);
                let e = self.gen_expiry(rng);
                json!({"decrease_allowance":{"spender": sp, "amount": amount_near(rng, cur).to_string(), "expires": e.as_ref().map(exp_json)}})
            }
            6 | 7 | 8 => {
                // draw: prefer an owner that granted something to this actor
                let mut owners: Vec<String> = vec![];
                if let Some(o) = &self.obs {
                    for ((ow, sp), (a, _)) in &o.allow {
                        if sp == actor && *a > 0 {
                            owners.push(ow.clone());
                        }
                    }
                }
                let owner = if !owners.is_empty() && rng.chance(5, 6) {
                    rng.pick(&owners).clone()
                } else {
                    self.universe[*rng.pick(&self.allow_u)].clone()
                };
                let al = self.allow_of(&owner, actor);
                let reference = if rng.chance(1, 3) { self.bal_of(&owner) } else { al };
                let amt = amount_near(rng, reference).to_string();
                match k {
                    6 => json!({"transfer_from":{"owner": owner, "recipient": self.pick_any(rng), "amount": amt}}),
                    7 => {
                        let target = if rng.chance(4, 5) { rng.pick(&self.sinks).clone() } else { self.pick_any(rng) };
                        json!({"send_from":{"owner": owner, "contract": target, "amount": amt, "msg": gen_payload(rng)}})
                    }
                    _ => json!({"burn_from":{"owner": owner, "amount": amt}}),
                }
            }
            _ => {
                let nm = match rng.below(4) {
                    0 => None,
                    _ => Some(self.pick_actor(rng)),
                };
                json!({"update_minter":{"new_minter": nm}})
            }
        }
    }

    fn weights(&self) -> [u32; 10] {
        // transfer send burn mint inc dec tfrom sfrom bfrom updminter
        match self.cfg.profile.as_str() {
            "C02" | "C19" => [6, 8, 4, 3, 22, 12, 16, 10, 8, 1],
            "C13" => [6, 3, 10, 30, 3, 1, 3, 1, 3, 14],
            "C20" => [8, 4, 3, 4, 16, 6, 6, 3, 3, 1],
            _ => [14, 12, 8, 10, 10, 5, 9, 7, 6, 3],
        }
    }

    fn gen_script(&mut self, rng: &mut Rng, msg: &Value) -> Vec<(String, SinkAct)> {
        // if the message notifies a sink, decide how that sink behaves
        let target = msg
            .get("send")
            .or_else(|| msg.get("send_from"))
            .and_then(|s| s.get("contract"))
            .and_then(|c| c.as_str())
            .map(|s| s.to_string());
        let mut script = vec![];
        if let Some(t) = target {
            if let Some(label) = self.chain.label_of(&t).map(|s| s.to_string()) {
                if label.starts_with("sink") {
                    let act = match rng.below(20) {
                        0..=11 => SinkAct::Accept,
                        12..=14 => SinkAct::Fail,
                        _ => {
                            let n = rng.range(1, 2);
                            let w = [10, 6, 6, 0, 4, 2, 6, 2, 3, 0];
                            let msgs = (0..n)
                                .map(|_| {
                                    let m = self.gen_token_msg(rng, &t, &w);
                                    wasm_exec(&self.token, &m)
                                })
                                .collect();
                            SinkAct::Call(msgs)
                        }
                    };
                    script.push((label, act));
                }
            }
        }
        script
    }
}

/// the payload attached to Send / SendFrom: the degenerate shapes (empty, one zero byte) as well as ordinary and long ones
fn gen_payload(rng: &mut Rng) -> String {
    match rng.below(8) {
        0 | 1 => base64(&[]),
        2 => base64(&[0u8]),
        3 => base64(&vec![rng.below(256) as u8; 70]),
        _ => base64(&[rng.below(256) as u8; 3]),
    }
}

fn base64(b: &[u8]) -> String {
    cosmwasm_std::Binary::from(b.to_vec()).to_base64()
}

impl World for WorldA {
    const NAME: &'static str = "A";

    fn gen_config(rng: &mut Rng, prop: &str, thorough: bool) -> Value {
        let nusers = rng.range(3, 6) as usize;
        let users: Vec<String> = (0..nusers).map(|i| format!("user{}", i)).collect();
        let bulk = if matches!(prop, "C20" | "ALL") && rng.chance(2, 3) || rng.chance(1, 8) {
            rng.range(28, 70) as usize
        } else {
            0
        };
        // initial balances
        let n_init = if rng.chance(2, 3) { nusers } else { rng.range(0, nusers as u64) as usize };
        let mut init_bal: Vec<Value> = vec![];
        let mut total: u128 = 0;
        for u in users.iter().take(n_init) {
            let a = match rng.below(12) {
                0 => 0u128,
                1 => 1,
                2 => u64::MAX as u128,
                3 => (u64::MAX as u128) + 1,
                4 => u128::MAX / 4,
                5 => u128::MAX - total, // fills the range exactly
                _ => rng.range(1, 1_000_000) as u128,
            };
            total = total.saturating_add(a);
            init_bal.push(json!({"address": addr_of(u), "amount": a.to_string()}));
        }
        if rng.chance(1, 16) && !init_bal.is_empty() {
            // a repeated address (same amount, zero, or another amount; before or after the original row):
            // must be rejected, or at least leave supply == sum of balances
            let k = rng.below(init_bal.len() as u64) as usize;
            let mut d = init_bal[k].clone();
            match rng.below(3) {
                0 => {}
                1 => d["amount"] = json!("0"),
                _ => d["amount"] = json!(rng.range(1, 1000).to_string()),
            }
            if rng.chance(1, 2) {
                init_bal.push(d);
            } else {
                init_bal.insert(0, d);
            }
        }
        for i in 0..bulk {
            init_bal.push(json!({"address": addr_of(&format!("bulk{}", i)), "amount": (1 + (i as u128 % 7)).to_string()}));
            total = total.saturating_add(1 + (i as u128 % 7));
        }
        let mint = match rng.below(10) {
            0 | 1 => Value::Null,
            2 | 3 => json!({"minter": addr_of(&users[0]), "cap": null}),
            4 => json!({"minter": addr_of(&users[0]), "cap": total.to_string()}),
            5 => json!({"minter": addr_of(&users[0]), "cap": total.saturating_sub(1).to_string()}),
            6 => json!({"minter": addr_of(&users[0]), "cap": u128::MAX.to_string()}),
            _ => json!({"minter": addr_of(&users[0]), "cap": total.saturating_add(rng.range(1, 100_000) as u128).to_string()}),
        };
        let init = json!({
            "name": "Sim Token", "symbol": "SIM", "decimals": 6,
            "initial_balances": init_bal,
            "mint": mint,
            "marketing": if rng.chance(1, 2) { json!({"project": "p", "description": "d", "marketing": addr_of(&users[0]), "logo": null}) } else { Value::Null },
        });
        let cfg = ACfg {
            users,
            init,
            bulk,
            spb: *rng.pick(&[0u64, 1, 5, 6, 1000]),
            steps: if thorough { rng.range(30, 150) as usize } else { rng.range(20, 90) as usize },
            faults: rng.chance(1, 2),
            migrations: rng.chance(1, 2) || prop == "C19",
            probe_every: if prop == "C20" { 6 } else { 25 },
            profile: prop.to_string(),
        };
        serde_json::to_value(cfg).unwrap()
    }

    fn build(config: &Value, prop: &str) -> Self {
        let cfg: ACfg = serde_json::from_value(config.clone()).expect("config");
        let mut chain = Chain::new();
        let users: Vec<String> = cfg.users.iter().map(|u| addr_of(u)).collect();
        let admin = addr_of("wasm-admin");
        let mut sinks = vec![];
        for i in 0..2 {
            let a = chain
                .instantiate(Kind::Sink, &format!("sink{}", i), &admin, &json!({}), vec![], None)
                .expect("sink");
            sinks.push(a);
        }
        let bulk_addrs: Vec<String> = (0..cfg.bulk).map(|i| addr_of(&format!("bulk{}", i))).collect();
        // the token address is needed by the snapper before instantiation: predict by instantiating after
        // setting a snapper that tolerates failing queries (inner_query returns None)
        let mut universe: Vec<String> = users.clone();
        let mut roles: Vec<&'static str> = users
            .iter()
            .enumerate()
            .map(|(i, _)| if i == 0 { "user0" } else { "user" })
            .collect();
        for s in &sinks {
            universe.push(s.clone());
            roles.push("sink");
        }
        let allow_u: Vec<usize> = (0..universe.len()).collect();
        // placeholder for the token's own address (filled after instantiation)
        let tok_res = {
            // snapper without token address in the universe for the instantiate frame
            chain.instantiate(Kind::Cw20, "token", &admin, &cfg.init, vec![], Some(admin.clone()))
        };
        let (token, token_ok) = match tok_res {
            Ok(a) => (a, true),
            Err(_) => (String::new(), false),
        };
        if token_ok {
            universe.push(token.clone());
            roles.push("token");
        }
        {
            let u2 = universe.clone();
            let au = allow_u.clone();
            chain.set_snapper(Box::new(move |kind, _addr, inner, deps, env: &Env| match kind {
                Kind::Cw20 => snap_cw20(inner, deps, env, &u2, &au),
                _ => Snap::None,
            }));
        }
        let cap0 = cfg
            .init
            .get("mint")
            .and_then(|m| if m.is_null() { None } else { Some(m) })
            .map(|m| m.get("cap").and_then(|c| c.as_str()).and_then(|c| c.parse::<u128>().ok()));
        let mut w = WorldA {
            cfg,
            prop: prop.to_string(),
            chain,
            meter: Meter::default(),
            universe,
            roles,
            allow_u,
            users,
            sinks,
            bulk_addrs,
            token,
            token_ok,
            cap0,
            minter_gone: false,
            last_supply: 0,
            granted: BTreeMap::new(),
            granted_sat: false,
            drawn: BTreeMap::new(),
            obs: None,
            step_idx: 0,
            deadlines_h: vec![],
            deadlines_t: vec![],
            page_rot: 0,
            pending: vec![],
            queue: Default::default(),
        };
        if w.token_ok {
            w.meter.flag("instantiated");
            // bulk allowances: user0 grants to every bulk address; every bulk address grants to user1
            if w.cfg.bulk > 0 && w.users.len() >= 2 {
                let u0 = w.users[0].clone();
                let u1 = w.users[1].clone();
                for (i, b) in w.bulk_addrs.clone().iter().enumerate() {
                    let m = json!({"increase_allowance":{"spender": b, "amount": (i as u128 + 1).to_string(), "expires": null}});
                    let r = w.chain.exec(&u0, "token", &m, vec![], None, &[]);
                    let _ = r;
                    let m2 = json!({"increase_allowance":{"spender": u1, "amount": "1", "expires": null}});
                    w.chain.exec(b, "token", &m2, vec![], None, &[]);
                }
                w.meter.hit("bulk_population");
            }
            let mut sink_out = vec![];
            w.check_state(false, &mut sink_out);
            // violations right after instantiation are reported at step 0 by the first apply()
            w.pending = sink_out;
        } else {
            w.meter.hit("instantiate_rejected");
        }
        w
    }

    fn planned_steps(&self) -> usize {
        if self.token_ok {
            self.cfg.steps
        } else {
            1
        }
    }

    fn gen_step(&mut self, rng: &mut Rng) -> Step {
        if !self.token_ok {
            return Step::Block { dh: 1, dt: self.cfg.spb, dn: 0 };
        }
        if let Some(s) = self.queue.pop_front() {
            return s;
        }
        if rng.chance(1, 14) {
            // F3 by construction: a draw placed on an allowance's expiry -1 / exactly / +1
            let b = self.chain.block();
            let mut live: Vec<(String, String, u128, Expiration)> = vec![];
            if let Some(o) = &self.obs {
                for ((ow, sp), (a, e)) in &o.allow {
                    if *a > 0 && !matches!(e, Expiration::Never {}) && self.users.contains(sp) {
                        live.push((ow.clone(), sp.clone(), *a, *e));
                    }
                }
            }
            if !live.is_empty() {
                let (ow, sp, a, e) = rng.pick(&live).clone();
                let off = *rng.pick(&[0u64, 1, 1, 2]);
                let jump = match e {
                    Expiration::AtHeight(h) => {
                        let t = (h + off).saturating_sub(1);
                        if t > b.height { Some(Step::Block { dh: t - b.height, dt: (t - b.height).saturating_mul(self.cfg.spb), dn: 0 }) } else { None }
                    }
                    Expiration::AtTime(ts) => crate::util::jump_around(rng, b.time.nanos(), ts.nanos()).map(|(dt, dn)| Step::Block { dh: 1, dt, dn }),
                    _ => None,
                };
                if let Some(j) = jump {
                    let amt = *rng.pick(&[a, a / 2, 1, a]);
                    let rcpt = self.pick_any(rng);
                    let m = match rng.below(3) {
                        0 => json!({"burn_from":{"owner": ow, "amount": amt.to_string()}}),
                        _ => json!({"transfer_from":{"owner": ow, "recipient": rcpt, "amount": amt.to_string()}}),
                    };
                    self.queue.push_back(Step::Tx { sender: sp, target: "token".into(), msg: m, funds: vec![], fault: None, script: vec![] });
                    self.meter.hit("draw_scheduled_on_expiry_boundary");
                    return j;
                }
            }
        }
        let r = rng.below(100);
        if r >= 92 {
            // F1: the classic race — the owner reduces (or re-grants) an allowance while the spender draws,
            // adjacent in the same block, in either order
            let mut live: Vec<(String, String, u128)> = vec![];
            if let Some(o) = &self.obs {
                for ((ow, sp), (a, _)) in &o.allow {
                    if *a > 0 && self.users.contains(ow) && self.users.contains(sp) {
                        live.push((ow.clone(), sp.clone(), *a));
                    }
                }
            }
            if !live.is_empty() {
                let (ow, sp, a) = rng.pick(&live).clone();
                let cut = match rng.below(4) {
                    0 => a,
                    1 => a / 2,
                    2 => a.saturating_add(1),
                    _ => 1,
                };
                let draw = match rng.below(4) {
                    0 => a,
                    1 => a / 2 + 1,
                    2 => a.saturating_sub(cut),
                    _ => a.saturating_sub(cut).saturating_add(1),
                };
                let owner_step = if rng.chance(3, 4) {
                    Step::Tx { sender: ow.clone(), target: "token".into(), msg: json!({"decrease_allowance":{"spender": sp, "amount": cut.to_string(), "expires": null}}), funds: vec![], fault: None, script: vec![] }
                } else {
                    Step::Tx { sender: ow.clone(), target: "token".into(), msg: json!({"increase_allowance":{"spender": sp, "amount": cut.to_string(), "expires": null}}), funds: vec![], fault: None, script: vec![] }
                };
                let rcpt = self.pick_any(rng);
                let spender_step = Step::Tx { sender: sp.clone(), target: "token".into(), msg: json!({"transfer_from":{"owner": ow, "recipient": rcpt, "amount": draw.to_string()}}), funds: vec![], fault: None, script: vec![] };
                self.meter.hit("allowance_race_pair_scheduled");
                if rng.chance(1, 2) {
                    self.queue.push_back(spender_step);
                    return owner_step;
                } else {
                    self.queue.push_back(owner_step);
                    return spender_step;
                }
            }
        }
        if r < 14 {
            // clock
            let b = self.chain.block();
            if rng.chance(1, 3) && (!self.deadlines_h.is_empty() || !self.deadlines_t.is_empty()) {
                // jump onto / around a known deadline
                let off = rng.below(3); // -1, 0, +1
                if !self.deadlines_h.is_empty() && (self.deadlines_t.is_empty() || rng.chance(1, 2)) {
                    let d = *rng.pick(&self.deadlines_h);
                    let target = (d + off).saturating_sub(1);
                    if target > b.height {
                        let dh = target - b.height;
                        return Step::Block { dh, dt: dh.saturating_mul(self.cfg.spb), dn: 0 };
                    }
                } else if !self.deadlines_t.is_empty() {
                    let d = *rng.pick(&self.deadlines_t);
                    if let Some((dt, dn)) = crate::util::jump_around(rng, b.time.nanos(), d) {
                        return Step::Block { dh: 1, dt, dn };
                    }
                }
            }
            let dh = *rng.pick(&[1u64, 1, 1, 2, 5, 1000]);
            return Step::Block { dh, dt: dh.saturating_mul(self.cfg.spb), dn: crate::util::subsecond(rng) };
        }
        if r < 17 && self.cfg.migrations {
            // the version the token was deployed with: any published release lays balances and allowances out the same way
            let sc = *rng.pick(&[
                "same", "pre014", "pre014:0.13.4", "pre014:0.13.0", "pre014:0.10.3", "pre014:0.9.1", "pre014:0.8.0", "pre014:0.6.2", "v014", "v014:0.16.0", "v014:1.0.1",
                "v014:1.1.2",
            ]);
            return Step::Migrate {
                target: "token".into(),
                msg: json!({}),
                scenario: Some(sc.to_string()),
            };
        }
        if r < 20 {
            // marketing noise by anybody
            let a = self.pick_actor(rng);
            let m = if rng.chance(1, 2) {
                json!({"update_marketing":{"project": "x", "description": null, "marketing": null}})
            } else {
                json!({"upload_logo":{"url":"https://example.com/l.png"}})
            };
            return Step::Tx { sender: a, target: "token".into(), msg: m, funds: vec![], fault: None, script: vec![] };
        }
        let w = self.weights();
        if r < 28 {
            // a sink acts as holder / spender: top-level call into the sink which calls the token
            let si = rng.below(self.sinks.len() as u64) as usize;
            let sink_addr = self.sinks[si].clone();
            let n = rng.range(1, 2);
            let msgs: Vec<Value> = (0..n)
                .map(|_| {
                    let m = self.gen_token_msg(rng, &sink_addr, &w);
                    wasm_exec(&self.token, &m)
                })
                .collect();
            let a = self.pick_actor(rng);
            return Step::Tx {
                sender: a,
                target: format!("sink{}", si),
                msg: json!({}),
                funds: vec![],
                fault: None,
                script: vec![(format!("sink{}", si), SinkAct::Call(msgs))],
            };
        }
        let mut actor = self.pick_actor(rng);
        let mut msg = self.gen_token_msg(rng, &actor, &w);
        if msg.get("mint").is_some() || msg.get("update_minter").is_some() {
            // mostly the real minter, sometimes former minters and strangers
            if let Some(Some((m, _))) = self.obs.as_ref().map(|o| o.minter.clone()) {
                if rng.chance(2, 3) && self.users.contains(&m) {
                    actor = m;
                    if msg.get("mint").is_some() {
                        msg = self.gen_token_msg(rng, &actor, &[0, 0, 0, 1, 0, 0, 0, 0, 0, 0]);
                    }
                }
            }
        }
        let script = self.gen_script(rng, &msg);
        let fault = if self.cfg.faults && rng.chance(1, 8) {
            let target = if rng.chance(1, 2) { self.token.clone() } else { rng.pick(&self.sinks).clone() };
            Some(Fault {
                target,
                nth: rng.range(1, 2) as u32,
                mode: if rng.chance(1, 2) { FaultMode::Early } else { FaultMode::Late },
            })
        } else {
            None
        };
        Step::Tx { sender: actor, target: "token".into(), msg, funds: vec![], fault, script }
    }

    fn apply(&mut self, step: &Step, out: &mut Vec<Violation>) {
        if !self.pending.is_empty() {
            let p = std::mem::take(&mut self.pending);
            out.extend(p);
        }
        match step {
            Step::Tx { sender, target, msg, funds, fault, script } => {
                if self.token_ok {
                    let r = self.chain.exec(sender, target, msg, coins(funds), fault.clone(), script);
                    let evs = self.chain.events(&r);
                    if !r.ok {
                        self.meter.token("tx", self.role(sender), "failed", 0);
                        self.meter.flag("tx_failed");
                    }
                    self.check_frames(&evs, &r, out);
                    self.check_state(!r.ok, out);
                }
            }
            Step::Block { dh, dt, dn } => {
                self.chain.advance_ns(*dh, *dt, *dn);
                self.meter.sim_blocks += dh;
                self.meter.sim_seconds += dt;
            }
            Step::Migrate { scenario, msg, .. } => {
                if self.token_ok {
                    let admin = addr_of("wasm-admin");
                    let full = scenario.clone().unwrap_or_default();
                    let (sc, ver_from) = match full.split_once(':') {
                        Some((a, b)) => (a.to_string(), Some(b.to_string())),
                        None => (full.clone(), None),
                    };
                    if sc == "pre014" || sc == "v014" {
                        let dump = self.chain.dump("token");
                        let mut ops: Vec<(cosmwasm_std::Binary, Option<cosmwasm_std::Binary>)> = vec![];
                        if sc == "pre014" {
                            for (k, _) in rawkeys::entries(&dump, "allowance_spender") {
                                ops.push((rawkeys::map_key("allowance_spender", &k).into(), None));
                            }
                        }
                        let ver = ver_from.clone().unwrap_or_else(|| if sc == "pre014" { "0.13.4".to_string() } else { "0.14.0".to_string() });
                        if sc == "pre014" && ver.split('.').nth(1).map(|m| m.len() == 1).unwrap_or(false) {
                            self.meter.hit("migrate_from_single_digit_minor");
                        }
                        ops.push((
                            rawkeys::item_key("contract_info").into(),
                            Some(
                                format!("{{\"contract\":\"crates.io:cw20-base\",\"version\":\"{}\"}}", ver)
                                    .into_bytes()
                                    .into(),
                            ),
                        ));
                        self.chain.sudo("token", &json!({"__surgery": ops}), None);
                        self.meter.hit(if sc == "pre014" { "migrate_from_pre014_layout" } else { "migrate_from_v014" });
                    } else {
                        self.meter.hit("migrate_same_version");
                    }
                    let r = self.chain.migrate(&admin, "token", msg);
                    let evs = self.chain.events(&r);
                    self.meter.token("migrate", "admin", if r.ok { "ok" } else { "failed" }, 0);
                    if !r.ok {
                        self.viol(
                            out,
                            "C19",
                            "migrate-failed",
                            json!({"scenario": sc}),
                            format!("migrate ({}) of a live token failed", sc),
                        );
                    }
                    self.check_frames(&evs, &r, out);
                    self.check_state(false, out);
                }
            }
            Step::Quiesce => {
                self.probe_c20(true, out);
            }
            _ => {}
        }
        if self.cfg.probe_every > 0 && self.step_idx % self.cfg.probe_every == self.cfg.probe_every - 1 {
            let full = self.cfg.profile == "C20";
            self.probe_c20(full, out);
        }
        self.step_idx += 1;
    }

    fn chain(&self) -> &Chain {
        &self.chain
    }

    fn meter(&self) -> &Meter {
        &self.meter
    }

    fn nontrivial(&self, prop: &str) -> bool {
        let f = &self.meter.nontrivial_flags;
        if !f.contains("instantiated") {
            return false;
        }
        match prop {
            "C01" => (f.contains("mint_ok") || f.contains("burn_ok")) && f.contains("tx_failed"),
            "C02" => f.contains("draw_ok") && f.contains("tx_failed") && f.contains("allow_change_ok"),
            "C13" => f.contains("mint_ok") || f.contains("update_minter_ok"),
            "C19" => f.contains("allow_change_ok") && f.contains("draw_ok"),
            "C20" => f.contains("c20_probed"),
            _ => f.len() > 3,
        }
    }
}
