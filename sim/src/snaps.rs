//! In-frame snapshots: taken by `Probe` through the wrapped contract's own `query` entry point,
//! inside the transaction, immediately before and after the real code runs.
use cosmwasm_std::{Coin, Deps, Empty, Env};
use cw_multi_test::Contract;
use cw_utils::Expiration;
use serde_json::json;

use crate::chain::inner_query;

#[derive(Clone, Debug, PartialEq)]
pub struct Cw20Snap {
    pub supply: Option<u128>,
    /// None = query failed; Some(None) = no minter
    pub minter: Option<Option<(String, Option<u128>)>>,
    /// balance per universe address
    pub bal: Vec<u128>,
    /// allowance[owner_idx][spender_idx]
    pub allow: Vec<Vec<(u128, Expiration)>>,
}

#[derive(Clone, Debug, PartialEq, Default)]
pub struct Cw1Snap {
    pub admins: Vec<String>,
    pub mutable: bool,
    /// per universe address: (normalised balance, expiry) as *reported* (expired ones read empty)
    pub allow: Vec<(Vec<Coin>, Expiration)>,
    /// per universe address: (delegate, redelegate, undelegate, withdraw)
    pub perms: Vec<(bool, bool, bool, bool)>,
    pub ok: bool,
}

#[derive(Clone, Debug, PartialEq, Default)]
pub struct Cw4Snap {
    pub admin: Option<String>,
    pub hooks: Vec<String>,
    /// full member list (paged)
    pub members: Vec<(String, u64)>,
    pub total: u64,
    /// stake contract only: per universe address (stake, claims)
    pub staked: Vec<u128>,
    pub claims: Vec<Vec<(u128, Expiration)>>,
    pub ok: bool,
}

#[derive(Clone, Debug, PartialEq, Default)]
pub struct Cw3Snap {
    /// (id, status) of every proposal
    pub statuses: Vec<(u64, String)>,
    pub ok: bool,
}

#[derive(Clone, Debug, PartialEq, Default)]
pub struct IcsSnap {
    pub admin: Option<String>,
    pub default_gas_limit: Option<u64>,
    pub default_timeout: u64,
    pub allowed: Vec<(String, Option<u64>)>,
    /// (channel, denom, outstanding, total_sent)
    pub books: Vec<(String, String, u128, u128)>,
    pub ok: bool,
}

#[derive(Clone, Debug, PartialEq)]
pub enum Snap {
    None,
    Cw20(Box<Cw20Snap>),
    Cw1(Box<Cw1Snap>),
    Cw4(Box<Cw4Snap>),
    Cw3(Box<Cw3Snap>),
    Ics(Box<IcsSnap>),
}

impl Snap {
    pub fn cw20(&self) -> Option<&Cw20Snap> {
        match self {
            Snap::Cw20(s) => Some(s),
            _ => None,
        }
    }
    pub fn cw1(&self) -> Option<&Cw1Snap> {
        match self {
            Snap::Cw1(s) => Some(s),
            _ => None,
        }
    }
    pub fn cw4(&self) -> Option<&Cw4Snap> {
        match self {
            Snap::Cw4(s) => Some(s),
            _ => None,
        }
    }
    pub fn cw3(&self) -> Option<&Cw3Snap> {
        match self {
            Snap::Cw3(s) => Some(s),
            _ => None,
        }
    }
    pub fn ics(&self) -> Option<&IcsSnap> {
        match self {
            Snap::Ics(s) => Some(s),
            _ => None,
        }
    }
}

pub fn snap_cw20(
    inner: &dyn Contract<Empty>,
    deps: Deps,
    env: &Env,
    universe: &[String],
    allow_universe: &[usize],
) -> Snap {
    let supply = inner_query::<cw20::TokenInfoResponse>(inner, deps, env, &json!({"token_info":{}}))
        .map(|t| t.total_supply.u128());
    let minter = inner_query::<Option<cw20::MinterResponse>>(inner, deps, env, &json!({"minter":{}}))
        .map(|m| m.map(|m| (m.minter, m.cap.map(|c| c.u128()))));
    let bal = universe
        .iter()
        .map(|a| {
            inner_query::<cw20::BalanceResponse>(inner, deps, env, &json!({"balance":{"address":a}}))
                .map(|b| b.balance.u128())
                .unwrap_or(u128::MAX)
        })
        .collect();
    let n = universe.len();
    let mut allow = vec![vec![(0u128, Expiration::Never {}); n]; n];
    // the matrix is filled from the owner listings (one paged walk per owner); the C19 monitor
    // separately checks after every step that listings and point queries agree
    for &o in allow_universe {
        let mut cur: Option<String> = None;
        loop {
            let page = inner_query::<cw20::AllAllowancesResponse>(
                inner,
                deps,
                env,
                &json!({"all_allowances":{"owner":universe[o],"start_after":cur,"limit":30}}),
            );
            let rows = match page {
                Some(p) => p.allowances,
                None => break,
            };
            let len = rows.len();
            for r in &rows {
                if let Some(s) = universe.iter().position(|u| *u == r.spender) {
                    allow[o][s] = (r.allowance.u128(), r.expires);
                }
            }
            if len < 30 {
                break;
            }
            cur = rows.last().map(|r| r.spender.clone());
        }
    }
    Snap::Cw20(Box::new(Cw20Snap {
        supply,
        minter,
        bal,
        allow,
    }))
}
