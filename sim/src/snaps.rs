//! In-frame snapshots: taken by `Probe` through the wrapped contract's own `query` entry point,
//! inside the transaction, immediately before and after the real code runs.
use cosmwasm_std::{Coin, Deps, Empty, Env};
use cw_multi_test::Contract;
use cw_utils::Expiration;
use serde_json::json;

use crate::chain::inner_query;

#[derive(Clone, Debug, PartialEq)]
pub struct Cw20Snap {
    pub supply: Option<u128>,
    /// None = query failed; Some(None) = no minter
    pub minter: Option<Option<(String, Option<u128>)>>,
    /// balance per universe address
    pub bal: Vec<u128>,
    /// allowance[owner_idx][spender_idx]
    pub allow: Vec<Vec<(u128, Expiration)>>,
}

#[derive(Clone, Debug, PartialEq, Default)]
pub struct Cw1Snap {
    pub admins: Vec<String>,
    pub mutable: bool,
    /// per universe address: (normalised balance, expiry) as *reported* (expired ones read empty)
    pub allow: Vec<(Vec<Coin>, Expiration)>,
    /// per universe address: (delegate, redelegate, undelegate, withdraw)
    pub perms: Vec<(bool, bool, bool, bool)>,
    /// spenders that AllAllowances / AllPermissions list (None: listing failed or too long to page in a frame)
    pub listed_allow: Option<Vec<String>>,
    pub listed_perms: Option<Vec<String>>,
    pub ok: bool,
}

#[derive(Clone, Debug, PartialEq, Default)]
pub struct Cw4Snap {
    pub admin: Option<String>,
    pub hooks: Vec<String>,
    /// full member list (paged)
    pub members: Vec<(String, u64)>,
    pub total: u64,
    /// stake contract only: per universe address (stake, claims)
    pub staked: Vec<u128>,
    pub claims: Vec<Vec<(u128, Expiration)>>,
    pub ok: bool,
}

#[derive(Clone, Debug, PartialEq, Default)]
pub struct Cw3Snap {
    /// (id, status) of every proposal
    pub statuses: Vec<(u64, String)>,
    pub ok: bool,
}

#[derive(Clone, Debug, PartialEq, Default)]
pub struct IcsSnap {
    pub admin: Option<String>,
    pub default_gas_limit: Option<u64>,
    pub default_timeout: u64,
    pub allowed: Vec<(String, Option<u64>)>,
    /// (channel, denom, outstanding, total_sent)
    pub books: Vec<(String, String, u128, u128)>,
    pub ok: bool,
}

#[derive(Clone, Debug, PartialEq)]
pub enum Snap {
    None,
    Cw20(Box<Cw20Snap>),
    Cw1(Box<Cw1Snap>),
    Cw4(Box<Cw4Snap>),
    Cw3(Box<Cw3Snap>),
    Ics(Box<IcsSnap>),
}

impl Snap {
    pub fn cw20(&self) -> Option<&Cw20Snap> {
        match self {
            Snap::Cw20(s) => Some(s),
            _ => None,
        }
    }
    pub fn cw1(&self) -> Option<&Cw1Snap> {
        match self {
            Snap::Cw1(s) => Some(s),
            _ => None,
        }
    }
    pub fn cw4(&self) -> Option<&Cw4Snap> {
        match self {
            Snap::Cw4(s) => Some(s),
            _ => None,
        }
    }
    pub fn cw3(&self) -> Option<&Cw3Snap> {
        match self {
            Snap::Cw3(s) => Some(s),
            _ => None,
        }
    }
    pub fn ics(&self) -> Option<&IcsSnap> {
        match self {
            Snap::Ics(s) => Some(s),
            _ => None,
        }
    }
}

pub fn snap_cw20(
    inner: &dyn Contract<Empty>,
    deps: Deps,
    env: &Env,
    universe: &[String],
    allow_universe: &[usize],
) -> Snap {
    let supply = inner_query::<cw20::TokenInfoResponse>(inner, deps, env, &json!({"token_info":{}}))
        .map(|t| t.total_supply.u128());
    let minter = inner_query::<Option<cw20::MinterResponse>>(inner, deps, env, &json!({"minter":{}}))
        .map(|m| m.map(|m| (m.minter, m.cap.map(|c| c.u128()))));
    let bal = universe
        .iter()
        .map(|a| {
            inner_query::<cw20::BalanceResponse>(inner, deps, env, &json!({"balance":{"address":a}}))
                .map(|b| b.balance.u128())
                .unwrap_or(u128::MAX)
        })
        .collect();
    let n = universe.len();
    let mut allow = vec![vec![(0u128, Expiration::Never {}); n]; n];
    // the matrix is filled from the owner listings (one paged walk per owner); the C19 monitor
    // separately checks after every step that listings and point queries agree
    for &o in allow_universe {
        let mut cur: Option<String> = None;
        loop {
            let page = inner_query::<cw20::AllAllowancesResponse>(
                inner,
                deps,
                env,
                &json!({"all_allowances":{"owner":universe[o],"start_after":cur,"limit":30}}),
            );
            let rows = match page {
                Some(p) => p.allowances,
                None => break,
            };
            let len = rows.len();
            for r in &rows {
                if let Some(s) = universe.iter().position(|u| *u == r.spender) {
                    allow[o][s] = (r.allowance.u128(), r.expires);
                }
            }
            if len < 30 {
                break;
            }
            cur = rows.last().map(|r| r.spender.clone());
        }
    }
    Snap::Cw20(Box::new(Cw20Snap {
        supply,
        minter,
        bal,
        allow,
    }))
}

pub fn list_members(inner: &dyn Contract<Empty>, deps: Deps, env: &Env) -> Option<Vec<(String, u64)>> {
    let mut out: Vec<(String, u64)> = vec![];
    let mut cur: Option<String> = None;
    loop {
        let page = inner_query::<cw4::MemberListResponse>(
            inner,
            deps,
            env,
            &json!({"list_members":{"start_after":cur,"limit":30}}),
        )?;
        let len = page.members.len();
        cur = page.members.last().map(|m| m.addr.clone());
        out.extend(page.members.into_iter().map(|m| (m.addr, m.weight)));
        if len < 30 || out.len() > 5000 {
            break;
        }
    }
    Some(out)
}

pub fn snap_cw4(inner: &dyn Contract<Empty>, deps: Deps, env: &Env, universe: &[String], stake: bool) -> Snap {
    let mut s = Cw4Snap::default();
    let admin = inner_query::<cw4::AdminResponse>(inner, deps, env, &json!({"admin":{}}));
    let hooks = inner_query::<cw4::HooksResponse>(inner, deps, env, &json!({"hooks":{}}));
    let members = list_members(inner, deps, env);
    let total = inner_query::<cw4::TotalWeightResponse>(inner, deps, env, &json!({"total_weight":{}}));
    s.ok = admin.is_some() && hooks.is_some() && members.is_some() && total.is_some();
    s.admin = admin.and_then(|a| a.admin);
    s.hooks = hooks.map(|h| h.hooks).unwrap_or_default();
    s.members = members.unwrap_or_default();
    s.total = total.map(|t| t.weight).unwrap_or(0);
    if stake {
        for a in universe {
            let st = inner_query::<cw4_stake::msg::StakedResponse>(inner, deps, env, &json!({"staked":{"address":a}}));
            let cl = inner_query::<cw_controllers::ClaimsResponse>(inner, deps, env, &json!({"claims":{"address":a}}));
            if st.is_none() || cl.is_none() {
                s.ok = false;
            }
            s.staked.push(st.map(|x| x.stake.u128()).unwrap_or(0));
            s.claims.push(
                cl.map(|c| c.claims.into_iter().map(|c| (c.amount.u128(), c.release_at)).collect())
                    .unwrap_or_default(),
            );
        }
    }
    Snap::Cw4(Box::new(s))
}

pub fn snap_cw3(inner: &dyn Contract<Empty>, deps: Deps, env: &Env) -> Snap {
    let mut s = Cw3Snap::default();
    let mut cur: Option<u64> = None;
    s.ok = true;
    loop {
        let page = inner_query::<cw3::ProposalListResponse>(
            inner,
            deps,
            env,
            &json!({"list_proposals":{"start_after":cur,"limit":30}}),
        );
        let page = match page {
            Some(p) => p,
            None => {
                s.ok = false;
                break;
            }
        };
        let len = page.proposals.len();
        cur = page.proposals.last().map(|p| p.id);
        for p in page.proposals {
            s.statuses.push((p.id, format!("{:?}", p.status)));
        }
        if len < 30 || s.statuses.len() > 5000 {
            break;
        }
    }
    Snap::Cw3(Box::new(s))
}

pub fn norm_coins(v: &[Coin]) -> Vec<Coin> {
    let mut m: std::collections::BTreeMap<String, u128> = std::collections::BTreeMap::new();
    for c in v {
        *m.entry(c.denom.clone()).or_insert(0) += c.amount.u128();
    }
    m.into_iter()
        .filter(|(_, a)| *a != 0)
        .map(|(d, a)| Coin::new(a, d))
        .collect()
}

pub fn snap_cw1(inner: &dyn Contract<Empty>, deps: Deps, env: &Env, universe: &[String], subkeys: bool) -> Snap {
    let mut s = Cw1Snap::default();
    match inner_query::<cw1_whitelist::msg::AdminListResponse>(inner, deps, env, &json!({"admin_list":{}})) {
        Some(a) => {
            s.admins = a.admins;
            s.mutable = a.mutable;
            s.ok = true;
        }
        None => return Snap::Cw1(Box::new(s)),
    }
    if subkeys {
        for a in universe {
            let al = inner_query::<cw1_subkeys::state::Allowance>(inner, deps, env, &json!({"allowance":{"spender":a}}));
            let pe = inner_query::<cw1_subkeys::state::Permissions>(inner, deps, env, &json!({"permissions":{"spender":a}}));
            if al.is_none() || pe.is_none() {
                s.ok = false;
            }
            let al = al.unwrap_or_default();
            s.allow.push((norm_coins(&al.balance.0), al.expires));
            let pe = pe.unwrap_or_default();
            s.perms.push((pe.delegate, pe.redelegate, pe.undelegate, pe.withdraw));
        }
        s.listed_allow = page_keys(&|cur| {
            inner_query::<cw1_subkeys::msg::AllAllowancesResponse>(inner, deps, env, &json!({"all_allowances":{"start_after":cur,"limit":30}}))
                .map(|r| r.allowances.into_iter().map(|a| a.spender).collect())
        });
        s.listed_perms = page_keys(&|cur| {
            inner_query::<cw1_subkeys::msg::AllPermissionsResponse>(inner, deps, env, &json!({"all_permissions":{"start_after":cur,"limit":30}}))
                .map(|r| r.permissions.into_iter().map(|a| a.spender).collect())
        });
    }
    Snap::Cw1(Box::new(s))
}

/// all keys of a `start_after` / `limit: 30` listing; None if a page fails or there are more than 8 pages
pub fn page_keys(page: &dyn Fn(Option<String>) -> Option<Vec<String>>) -> Option<Vec<String>> {
    let mut all: Vec<String> = vec![];
    let mut cur: Option<String> = None;
    for _ in 0..8 {
        let p = page(cur.clone())?;
        let n = p.len();
        cur = p.last().cloned();
        all.extend(p);
        if n < 30 {
            return Some(all);
        }
    }
    None
}

pub fn snap_ics(inner: &dyn Contract<Empty>, deps: Deps, env: &Env) -> Snap {
    let mut s = IcsSnap::default();
    let cfg = inner_query::<cw20_ics20::msg::ConfigResponse>(inner, deps, env, &json!({"config":{}}));
    let adm = inner_query::<cw_controllers::AdminResponse>(inner, deps, env, &json!({"admin":{}}));
    s.ok = cfg.is_some() && adm.is_some();
    if let Some(c) = cfg {
        s.default_gas_limit = c.default_gas_limit;
        s.default_timeout = c.default_timeout;
    }
    s.admin = adm.and_then(|a| a.admin);
    let mut cur: Option<String> = None;
    loop {
        let p = inner_query::<cw20_ics20::msg::ListAllowedResponse>(
            inner,
            deps,
            env,
            &json!({"list_allowed":{"start_after":cur,"limit":30}}),
        );
        let p = match p {
            Some(p) => p,
            None => {
                s.ok = false;
                break;
            }
        };
        let n = p.allow.len();
        cur = p.allow.last().map(|a| a.contract.clone());
        s.allowed.extend(p.allow.into_iter().map(|a| (a.contract, a.gas_limit)));
        if n < 30 || s.allowed.len() > 5000 {
            break;
        }
    }
    if let Some(l) = inner_query::<cw20_ics20::msg::ListChannelsResponse>(inner, deps, env, &json!({"list_channels":{}})) {
        for ch in l.channels {
            if let Some(c) = inner_query::<cw20_ics20::msg::ChannelResponse>(inner, deps, env, &json!({"channel":{"id":ch.id}})) {
                let mut m: std::collections::BTreeMap<String, (u128, u128)> = std::collections::BTreeMap::new();
                for a in &c.balances {
                    m.entry(a.denom()).or_insert((0, 0)).0 = a.amount().u128();
                }
                for a in &c.total_sent {
                    m.entry(a.denom()).or_insert((0, 0)).1 = a.amount().u128();
                }
                for (d, (o, t)) in m {
                    s.books.push((ch.id.clone(), d, o, t));
                }
            } else {
                s.ok = false;
            }
        }
    } else {
        s.ok = false;
    }
    Snap::Ics(Box::new(s))
}
