//! World C monitors for the group contracts: C09 (totals and point-in-time weights), C10 (staking),
//! C14 (admin-only changes, truthful hooks).
use std::collections::BTreeMap;

use cosmwasm_std::{BankMsg, CosmosMsg, ReplyOn, WasmMsg};
use cw_utils::{Duration, Expiration};
use serde_json::{json, Value};

use crate::chain::{Entry, Event, Frame, Kind, ModMsg, TxResult};
use crate::snaps::Cw4Snap;
use crate::trace::Violation;
use crate::util::Fnv;
use crate::world::bucket;
use crate::world_c::{Members, UnbondRec, WorldC, STAKE_DENOM};

pub(crate) fn members_map(v: &[(String, u64)]) -> Members {
    v.iter().cloned().collect()
}

/// hook notification payload
fn parse_hook(msg: &[u8]) -> Option<Vec<cw4::MemberDiff>> {
    let v: Value = cosmwasm_std::from_json(msg).ok()?;
    let o = v.as_object()?;
    if o.len() != 1 {
        return None;
    }
    let h: cw4::MemberChangedHookMsg = serde_json::from_value(o.get("member_changed_hook")?.clone()).ok()?;
    Some(h.diffs)
}

impl WorldC {
    fn group_snap_now(&mut self) -> Result<Cw4Snap, bool> {
        let mut s = Cw4Snap::default();
        let a: cw4::AdminResponse = self.chain.query("group", &json!({"admin":{}}))?;
        let h: cw4::HooksResponse = self.chain.query("group", &json!({"hooks":{}}))?;
        s.admin = a.admin;
        s.hooks = h.hooks;
        // members, paged with a rotating page size
        const R: [Option<u32>; 4] = [None, Some(30), Some(3), Some(100)];
        let lim = R[self.step_idx % R.len()];
        let mut cur: Option<String> = None;
        loop {
            let p: cw4::MemberListResponse = self
                .chain
                .query("group", &json!({"list_members":{"start_after":cur,"limit":lim}}))?;
            if p.members.is_empty() {
                break;
            }
            cur = p.members.last().map(|m| m.addr.clone());
            s.members.extend(p.members.into_iter().map(|m| (m.addr, m.weight)));
            if s.members.len() > 5000 {
                break;
            }
        }
        let t: cw4::TotalWeightResponse = self.chain.query("group", &json!({"total_weight":{}}))?;
        s.total = t.weight;
        if self.is_stake {
            for a in self.universe.clone() {
                let st: cw4_stake::msg::StakedResponse = self.chain.query("group", &json!({"staked":{"address":a}}))?;
                let cl: cw_controllers::ClaimsResponse = self.chain.query("group", &json!({"claims":{"address":a}}))?;
                s.staked.push(st.stake.u128());
                s.claims.push(cl.claims.into_iter().map(|c| (c.amount.u128(), c.release_at)).collect());
            }
        }
        s.ok = true;
        Ok(s)
    }

    pub(crate) fn stake_token_balance(&self, who: &str) -> u128 {
        if self.stake_cw20 {
            self.token_balance(who)
        } else {
            self.chain.bank_balance(who, STAKE_DENOM)
        }
    }

    /// state checks after every transaction; refreshes `cur_members`
    pub(crate) fn observe_group(&mut self, tx_failed: bool, out: &mut Vec<Violation>) {
        if !self.group_ok {
            return;
        }
        let obs = match self.group_snap_now() {
            Ok(o) => o,
            Err(abort) => {
                self.viol(
                    out,
                    "C09",
                    if abort { "query-abort" } else { "query-error" },
                    json!({}),
                    "a group query failed".into(),
                );
                return;
            }
        };
        // C09: total == sum of listed members; listing has unique, sorted addresses
        let mut sum: u128 = 0;
        for (_, w) in &obs.members {
            sum += *w as u128;
        }
        if sum != obs.total as u128 {
            self.viol(
                out,
                "C09",
                "total-ne-sum-of-members",
                json!({"stake": self.is_stake}),
                format!("TotalWeight {} != sum of ListMembers {}", obs.total, sum),
            );
        }
        {
            let mut seen = std::collections::BTreeSet::new();
            for (a, _) in &obs.members {
                if !seen.insert(a.clone()) {
                    self.viol(out, "C09", "member-listed-twice", json!({}), a.clone());
                }
            }
        }
        // C09: raw keys published by the cw4 spec
        {
            let raw_total = self
                .chain
                .raw("group", cw4::TOTAL_KEY.as_bytes())
                .and_then(|b| cosmwasm_std::from_json::<u64>(&b).ok());
            if raw_total != Some(obs.total) {
                self.viol(
                    out,
                    "C09",
                    "raw-total-differs",
                    json!({}),
                    format!("raw read of TOTAL_KEY gives {:?}, TotalWeight says {}", raw_total, obs.total),
                );
            }
            let mm = members_map(&obs.members);
            let mut sample: Vec<String> = self.universe.clone();
            sample.extend(self.bulk_addrs.iter().take(2).cloned());
            for a in sample {
                let raw = self.chain.raw("group", &cw4::member_key(&a));
                let rawv = match &raw {
                    Some(b) if !b.is_empty() => cosmwasm_std::from_json::<u64>(b).ok(),
                    _ => None,
                };
                let smart = self
                    .chain
                    .query::<cw4::MemberResponse>("group", &json!({"member":{"addr":a,"at_height":null}}))
                    .ok()
                    .and_then(|m| m.weight);
                if rawv != smart || smart != mm.get(&a).cloned() {
                    self.viol(
                        out,
                        "C09",
                        "raw-member-differs",
                        json!({}),
                        format!("{}: raw {:?}, Member {:?}, ListMembers {:?}", a, rawv, smart, mm.get(&a)),
                    );
                }
            }
        }
        // rule 4
        if tx_failed {
            if let Some(prev) = &self.last_group_obs {
                if prev.members != obs.members || prev.total != obs.total {
                    self.viol(out, "C09", "failed-tx-changed-membership", json!({}), "a failed transaction changed members or total".into());
                }
                if prev.admin != obs.admin || prev.hooks != obs.hooks {
                    self.viol(out, "C14", "failed-tx-changed-admin-or-hooks", json!({}), "a failed transaction changed admin or hooks".into());
                }
                if prev.staked != obs.staked || prev.claims != obs.claims {
                    self.viol(out, "C10", "failed-tx-changed-stakes", json!({}), "a failed transaction changed stakes or claims".into());
                }
            }
        }
        // C14: frozen forever once the admin is cleared
        if self.admin_gone {
            if let Some(prev) = &self.last_group_obs {
                if prev.admin != obs.admin || prev.hooks != obs.hooks || (!self.is_stake && prev.members != obs.members) {
                    self.viol(
                        out,
                        "C14",
                        "changed-after-admin-cleared",
                        json!({}),
                        "admin, hooks or membership changed although the admin had been cleared".into(),
                    );
                }
            }
        }
        if obs.admin.is_none() {
            if !self.admin_gone {
                self.meter.hit("group_admin_cleared");
            }
            self.admin_gone = true;
        }
        // C10 state
        if self.is_stake {
            self.check_stake_state(&obs, out);
        }
        let mm = members_map(&obs.members);
        if mm != self.cur_members {
            self.meter.flag("group_changed");
            if self.block_start_members != self.cur_members {
                self.meter.hit("second_group_change_in_one_block");
            }
        }
        self.cur_members = mm;
        // abstract state
        let mut h = Fnv::new();
        h.u64(obs.admin.is_some() as u64);
        h.u64(obs.hooks.len() as u64);
        for (_, w) in obs.members.iter().take(12) {
            h.u64(bucket(*w as u128));
        }
        for s in &obs.staked {
            h.u64(bucket(*s));
        }
        for c in &obs.claims {
            h.u64(c.len() as u64);
        }
        for m in &self.msigs {
            for p in m.props.values().rev().take(6) {
                h.str(&p.last_status);
                h.u64(p.ballots.len() as u64);
            }
        }
        self.meter.state(h.0);
        self.last_group_obs = Some(obs);
    }

    fn check_stake_state(&mut self, obs: &Cw4Snap, out: &mut Vec<Violation>) {
        let (tpw, min_bond, _) = match self.stake_cfg {
            Some(c) => c,
            None => return,
        };
        let mut owed: Option<u128> = Some(0);
        for s in &obs.staked {
            owed = owed.and_then(|o| o.checked_add(*s));
        }
        for cl in &obs.claims {
            for (a, _) in cl {
                owed = owed.and_then(|o| o.checked_add(*a));
            }
        }
        let owed_d = owed.and_then(|o| o.checked_add(self.donated));
        let bal = self.stake_token_balance(&self.group.clone());
        match owed_d {
            Some(o) if o == bal => {}
            _ => {
                self.viol(
                    out,
                    "C10",
                    if owed.map(|o| o > bal).unwrap_or(true) { "under-backed" } else { "backing-not-exact" },
                    json!({}),
                    format!(
                        "contract holds {} but owes stakes+claims {:?} (+ donations {})",
                        bal, owed, self.donated
                    ),
                );
            }
        }
        // membership follows stake
        let mm = members_map(&obs.members);
        for (i, a) in self.universe.clone().iter().enumerate() {
            let stake = obs.staked[i];
            let member = mm.get(a).cloned();
            let should_be_member = stake >= min_bond.max(1);
            if member.is_some() != should_be_member {
                self.viol(
                    out,
                    "C10",
                    "membership-vs-min-bond",
                    json!({}),
                    format!("{}: stake {} min_bond {} but Member is {:?}", a, stake, min_bond, member),
                );
            }
            if let Some(w) = member {
                if tpw > 0 {
                    let q = stake / tpw;
                    if q != w as u128 {
                        let wrapped = q > u64::MAX as u128 && (q & (u64::MAX as u128)) == w as u128;
                        if wrapped {
                            self.meter.hit("weight_quotient_over_u64");
                        }
                        self.viol(
                            out,
                            "C10",
                            "weight-ne-stake-quotient",
                            json!({"quotient_exceeds_u64": q > u64::MAX as u128, "reported_is_quotient_mod_2_64": wrapped}),
                            format!("{}: stake {} / tokens_per_weight {} = {} but weight is {}", a, stake, tpw, q, w),
                        );
                    }
                }
            }
        }
        // members that are not in the universe cannot exist in a stake group driven by universe actors
        for (a, _) in &obs.members {
            if self.idx(a).is_none() {
                self.viol(out, "C10", "member-without-stake", json!({}), format!("{} is a member but never bonded", a));
            }
        }
    }

    // ---------------------------------------------------------------- C09 point-in-time probes

    pub(crate) fn truth_at(&self, h: u64) -> Option<&Members> {
        // None = before the group existed
        if h <= self.group_height0 {
            return None;
        }
        let now = self.chain.block().height;
        if h > now {
            return Some(&self.cur_members);
        }
        let mut best: Option<&Members> = None;
        for (hi, m) in &self.history {
            if *hi <= h {
                best = Some(m);
            } else {
                break;
            }
        }
        match best {
            Some(m) => Some(m),
            // no block boundary since instantiation: the start-of-block value for the instantiation
            // block itself is "nothing"; h > height0 and h <= now cannot happen here
            None => Some(&self.cur_members),
        }
    }

    pub(crate) fn probe_heights(&mut self, out: &mut Vec<Violation>) {
        if !self.group_ok {
            return;
        }
        let now = self.chain.block().height;
        let h0 = self.group_height0;
        let mut hs: Vec<u64> = vec![h0.saturating_sub(2), h0.saturating_sub(1), h0, h0 + 1, now.saturating_sub(1), now, now + 1, now + 3, 0, u64::MAX];
        for (hi, _) in self.history.iter().rev().take(5) {
            hs.push(hi.saturating_sub(1));
            hs.push(*hi);
            hs.push(hi + 1);
        }
        hs.sort();
        hs.dedup();
        let mut addrs: Vec<String> = self.universe.clone();
        addrs.extend(self.bulk_addrs.iter().take(2).cloned());
        let mut probes = 0u64;
        for h in hs {
            let truth: Option<Members> = self.truth_at(h).cloned();
            for a in &addrs {
                let got = match self
                    .chain
                    .query::<cw4::MemberResponse>("group", &json!({"member":{"addr":a,"at_height":h}}))
                {
                    Ok(m) => m.weight,
                    Err(_) => {
                        self.viol(out, "C09", "member-at-height-query-failed", json!({}), format!("Member{{{}, at_height {}}} failed", a, h));
                        continue;
                    }
                };
                probes += 1;
                let want = truth.as_ref().and_then(|m| m.get(a).cloned());
                if got != want {
                    let same_block = h == now;
                    self.viol(
                        out,
                        "C09",
                        "member-at-height",
                        json!({"stake": self.is_stake, "queried_current_block": same_block}),
                        format!(
                            "Member{{{}, at_height {}}} = {:?}, but the weight at the start of block {} was {:?} (now {}, instantiated {})",
                            a, h, got, h, want, now, h0
                        ),
                    );
                }
            }
            if !self.is_stake {
                let want: u128 = truth.as_ref().map(|m| m.values().map(|w| *w as u128).sum()).unwrap_or(0);
                match self
                    .chain
                    .query::<cw4::TotalWeightResponse>("group", &json!({"total_weight":{"at_height":h}}))
                {
                    Ok(t) => {
                        if t.weight as u128 != want {
                            self.viol(
                                out,
                                "C09",
                                "total-at-height",
                                json!({}),
                                format!("TotalWeight{{at_height {}}} = {}, truth {} (now {}, instantiated {})", h, t.weight, want, now, h0),
                            );
                        }
                    }
                    Err(_) => self.viol(out, "C09", "total-at-height-query-failed", json!({}), format!("at_height {}", h)),
                }
            }
        }
        *self.meter.probes.entry("height_probes").or_insert(0) += probes;
        if !self.history.is_empty() {
            self.meter.flag("height_probe");
        }
    }

    // ---------------------------------------------------------------- per-frame relations

    pub(crate) fn check_group_frames(&mut self, evs: &[Event], r: &TxResult, out: &mut Vec<Violation>) {
        let group = self.group.clone();
        let mut expected_deliveries: Vec<(String, Vec<u8>)> = vec![];
        let mut got_deliveries: Vec<(String, Vec<u8>)> = vec![];
        for ev in evs {
            let f = match ev {
                Event::Frame(f) => f,
                _ => continue,
            };
            if f.entry == Entry::Execute && f.sender == group && f.outcome.is_ok() && f.kind == Kind::Sink {
                got_deliveries.push((f.addr.clone(), f.msg.clone()));
            }
            if f.addr != group || f.entry != Entry::Execute {
                continue;
            }
            let (pre, post) = match (f.pre.cw4(), f.post.cw4()) {
                (Some(a), Some(b)) if a.ok && b.ok => (a.clone(), b.clone()),
                _ => continue,
            };
            let resp = match f.outcome.response() {
                Some(r) => r.clone(),
                None => continue,
            };
            let committed = r.ok && f.outcome.is_ok();
            if self.is_stake {
                self.check_stake_frame(f, &pre, &post, &resp, committed, out);
            }
            self.check_cw4_frame(f, &pre, &post, &resp, committed, &mut expected_deliveries, out);
        }
        if r.ok {
            let sinks = self.sinks.clone();
            let mut exp: Vec<_> = expected_deliveries.into_iter().filter(|(a, _)| sinks.contains(a)).collect();
            exp.sort();
            got_deliveries.sort();
            if exp != got_deliveries {
                self.viol(
                    out,
                    "C14",
                    "hook-not-delivered-exactly-once",
                    json!({"expected": exp.len(), "got": got_deliveries.len()}),
                    format!("{} hook notifications expected at Sinks, {} delivered", exp.len(), got_deliveries.len()),
                );
            }
        }
    }

    #[allow(clippy::too_many_arguments)]
    fn check_cw4_frame(
        &mut self,
        f: &Frame,
        pre: &Cw4Snap,
        post: &Cw4Snap,
        resp: &cosmwasm_std::Response,
        committed: bool,
        expected_deliveries: &mut Vec<(String, Vec<u8>)>,
        out: &mut Vec<Violation>,
    ) {
        let v: Value = match cosmwasm_std::from_json(&f.msg) {
            Ok(v) => v,
            Err(_) => return,
        };
        let kind = v.as_object().and_then(|o| o.keys().next().cloned()).unwrap_or_default();
        let by_admin = pre.admin.as_deref() == Some(f.sender.as_str());
        let role = self.role(&f.sender);
        // admin-only calls
        if matches!(kind.as_str(), "update_admin" | "add_hook" | "remove_hook" | "update_members") && !by_admin {
            self.viol(
                out,
                "C14",
                "admin-call-ok-for-non-admin",
                json!({"call": kind}),
                format!("{} by {} succeeded; admin was {:?}", kind, role, pre.admin),
            );
        }
        if pre.admin != post.admin {
            let want = v["update_admin"]["admin"].as_str().map(|s| s.to_string());
            if kind != "update_admin" || !by_admin || post.admin != want {
                self.viol(
                    out,
                    "C14",
                    "admin-changed-improperly",
                    json!({"call": kind}),
                    format!("{} by {}: admin {:?} -> {:?}", kind, role, pre.admin, post.admin),
                );
            }
        } else if kind == "update_admin" {
            let want = v["update_admin"]["admin"].as_str().map(|s| s.to_string());
            if post.admin != want {
                self.viol(out, "C14", "update-admin-result", json!({}), format!("admin is {:?}, requested {:?}", post.admin, want));
            }
        }
        if pre.hooks != post.hooks {
            let ok = by_admin
                && match kind.as_str() {
                    "add_hook" => {
                        let a = v["add_hook"]["addr"].as_str().unwrap_or("").to_string();
                        let mut want = pre.hooks.clone();
                        want.push(a);
                        let mut got = post.hooks.clone();
                        want.sort();
                        got.sort();
                        got == want
                    }
                    "remove_hook" => {
                        let a = v["remove_hook"]["addr"].as_str().unwrap_or("").to_string();
                        let mut want: Vec<String> = pre.hooks.iter().filter(|h| **h != a).cloned().collect();
                        let mut got = post.hooks.clone();
                        let removed_one = want.len() + 1 == pre.hooks.len();
                        want.sort();
                        got.sort();
                        got == want && removed_one
                    }
                    _ => false,
                };
            if !ok {
                self.viol(
                    out,
                    "C14",
                    "hooks-changed-improperly",
                    json!({"call": kind}),
                    format!("{} by {}: hooks {:?} -> {:?}", kind, role, pre.hooks, post.hooks),
                );
            }
        }
        let prem = members_map(&pre.members);
        let postm = members_map(&post.members);
        if prem != postm && !self.is_stake && !(kind == "update_members" && by_admin) {
            self.viol(
                out,
                "C14",
                "membership-changed-improperly",
                json!({"call": kind}),
                format!("{} by {} changed the membership", kind, role),
            );
        }
        // C09: a successful UpdateMembers makes the membership exactly what was requested
        // (adds applied first, then removes), nothing more and nothing less
        if kind == "update_members" && !self.is_stake {
            let mut model = prem.clone();
            if let Some(a) = v["update_members"]["add"].as_array() {
                for m in a {
                    if let (Some(addr), Some(w)) = (m["addr"].as_str(), m["weight"].as_u64()) {
                        model.insert(addr.to_string(), w);
                    }
                }
            }
            if let Some(a) = v["update_members"]["remove"].as_array() {
                for m in a {
                    if let Some(addr) = m.as_str() {
                        model.remove(addr);
                    }
                }
            }
            if model != postm {
                let missing: Vec<&String> = model.keys().filter(|k| !postm.contains_key(*k)).collect();
                let zero_weight_missing = missing.iter().any(|k| model[*k] == 0);
                self.viol(
                    out,
                    "C09",
                    "update-members-result",
                    json!({"zero_weight_member_missing": zero_weight_missing}),
                    format!(
                        "UpdateMembers: membership is {:?}, the request applied to the previous membership gives {:?}",
                        postm, model
                    ),
                );
            }
            let post_total: u128 = postm.values().map(|w| *w as u128).sum();
            if post.total as u128 != post_total {
                self.viol(out, "C09", "total-ne-sum-of-members", json!({"stake": false}), format!("after UpdateMembers total {} != sum {}", post.total, post_total));
            }
        }
        // which addresses may the call have touched?
        let named: Vec<String> = match kind.as_str() {
            "update_members" => {
                let mut n: Vec<String> = vec![];
                if let Some(a) = v["update_members"]["add"].as_array() {
                    n.extend(a.iter().filter_map(|m| m["addr"].as_str().map(|s| s.to_string())));
                }
                if let Some(a) = v["update_members"]["remove"].as_array() {
                    n.extend(a.iter().filter_map(|m| m.as_str().map(|s| s.to_string())));
                }
                n
            }
            "bond" | "unbond" => vec![f.sender.clone()],
            "receive" => vec![v["receive"]["sender"].as_str().unwrap_or("").to_string()],
            _ => vec![],
        };
        // hook notifications: every message that is not the stake payout must be a notification
        let mut notes: Vec<(String, Vec<cw4::MemberDiff>, Vec<u8>)> = vec![];
        let mut other_msgs = 0usize;
        for sm in &resp.messages {
            let mut is_note = false;
            if let CosmosMsg::Wasm(WasmMsg::Execute { contract_addr, msg, funds }) = &sm.msg {
                if let Some(d) = parse_hook(msg.as_slice()) {
                    is_note = true;
                    if !funds.is_empty() || sm.reply_on != ReplyOn::Never || sm.gas_limit.is_some() {
                        self.viol(out, "C14", "hook-message-malformed", json!({}), "notification carries funds / reply / gas limit".into());
                    }
                    notes.push((contract_addr.clone(), d, msg.to_vec()));
                }
            }
            if !is_note {
                other_msgs += 1;
            }
        }
        let allowed_other = if kind == "claim" { 1 } else { 0 };
        if other_msgs > allowed_other {
            self.viol(
                out,
                "C14",
                "unexpected-dispatch",
                json!({"call": kind}),
                format!("{} emitted {} messages that are not hook notifications", kind, other_msgs),
            );
        }
        let changed = prem != postm;
        if changed || !notes.is_empty() {
            // exactly one per registered hook (as of the call), all the same diffs
            let mut hooks_notified: Vec<String> = notes.iter().map(|n| n.0.clone()).collect();
            let mut want_hooks = pre.hooks.clone();
            hooks_notified.sort();
            want_hooks.sort();
            if changed && hooks_notified != want_hooks {
                self.viol(
                    out,
                    "C14",
                    "hooks-notified-ne-registered",
                    json!({"call": kind}),
                    format!("weights changed; notified {:?}, registered {:?}", hooks_notified, want_hooks),
                );
            }
            if !changed && !hooks_notified.iter().all(|h| want_hooks.contains(h)) {
                self.viol(out, "C14", "unregistered-hook-notified", json!({}), format!("{:?} vs {:?}", hooks_notified, want_hooks));
            }
            for n in &notes {
                if n.1 != notes[0].1 {
                    self.viol(out, "C14", "hooks-got-different-diffs", json!({}), "notifications differ between hooks".into());
                }
                // replay
                let mut run = prem.clone();
                let mut truthful = true;
                for d in &n.1 {
                    if run.get(&d.key).cloned() != d.old {
                        truthful = false;
                    }
                    match d.new {
                        Some(w) => {
                            run.insert(d.key.clone(), w);
                        }
                        None => {
                            run.remove(&d.key);
                        }
                    }
                    if d.old.is_none() && d.new.is_none() {
                        truthful = false;
                    }
                    if !named.contains(&d.key) {
                        truthful = false;
                    }
                }
                if !truthful || run != postm {
                    self.viol(
                        out,
                        "C14",
                        "hook-diff-untruthful",
                        json!({"call": kind, "stake": self.is_stake}),
                        format!("{}: diffs {:?} do not lead from the previous to the new membership", kind, n.1),
                    );
                    // C10: what the staking contract reports about a member — to a listener as much as to a
                    // query — is the quotient of its stake, and membership exactly stake >= min_bond
                    if self.is_stake {
                        for d in &n.1 {
                            if postm.get(&d.key).cloned() != d.new {
                                self.viol(
                                    out,
                                    "C10",
                                    "reported-weight-ne-member-query",
                                    json!({"channel": "hook"}),
                                    format!("{}: listeners are told {} now has weight {:?}, the Member query says {:?}", kind, d.key, d.new, postm.get(&d.key)),
                                );
                            }
                        }
                    }
                }
            }
            if changed && !pre.hooks.is_empty() {
                self.meter.flag("hook_notified");
            }
            if f.outcome.is_ok() {
                for n in &notes {
                    expected_deliveries.push((n.0.clone(), n.2.clone()));
                }
            }
        }
        self.meter.token(&kind, role, if committed { "committed" } else { "rolled-back" }, notes.len() as u64);
    }

    fn check_stake_frame(
        &mut self,
        f: &Frame,
        pre: &Cw4Snap,
        post: &Cw4Snap,
        resp: &cosmwasm_std::Response,
        committed: bool,
        out: &mut Vec<Violation>,
    ) {
        let (_, _, period) = match self.stake_cfg {
            Some(c) => c,
            None => return,
        };
        let v: Value = match cosmwasm_std::from_json(&f.msg) {
            Ok(v) => v,
            Err(_) => return,
        };
        let kind = v.as_object().and_then(|o| o.keys().next().cloned()).unwrap_or_default();
        let n = self.universe.len();
        let mut exp_stake = pre.staked.clone();
        let mut exp_claims = pre.claims.clone();
        let si = self.idx(&f.sender);
        let attached_stake_denom: u128 = f
            .funds
            .iter()
            .filter(|c| c.denom == STAKE_DENOM)
            .map(|c| c.amount.u128())
            .sum();
        let mut arith_ok = true;
        match kind.as_str() {
            "bond" => {
                // native only
                if self.stake_cw20 {
                    self.viol(out, "C10", "foreign-token-accepted", json!({"case":"native-into-cw20-config"}), "native Bond accepted by a cw20-staked group".into());
                } else if f.funds.len() != 1 || f.funds[0].denom != STAKE_DENOM {
                    self.viol(out, "C10", "foreign-token-accepted", json!({"case":"wrong-or-extra-denoms"}), format!("Bond accepted with funds {:?}", f.funds));
                } else if let Some(i) = si {
                    match exp_stake[i].checked_add(f.funds[0].amount.u128()) {
                        Some(x) => exp_stake[i] = x,
                        None => arith_ok = false,
                    }
                    self.meter.flag("bond_ok");
                }
            }
            "receive" => {
                let who = v["receive"]["sender"].as_str().unwrap_or("").to_string();
                let amt = v["receive"]["amount"].as_str().and_then(|s| s.parse::<u128>().ok()).unwrap_or(0);
                if !self.stake_cw20 || f.sender != self.token {
                    self.viol(
                        out,
                        "C10",
                        "foreign-token-accepted",
                        json!({"case":"receive-from-wrong-token"}),
                        format!("Receive from {} accepted", self.role(&f.sender)),
                    );
                } else if let Some(i) = self.idx(&who) {
                    match exp_stake[i].checked_add(amt) {
                        Some(x) => exp_stake[i] = x,
                        None => arith_ok = false,
                    }
                    self.meter.flag("bond_ok");
                }
            }
            "unbond" => {
                let amt = v["unbond"]["tokens"].as_str().and_then(|s| s.parse::<u128>().ok()).unwrap_or(0);
                if let Some(i) = si {
                    match exp_stake[i].checked_sub(amt) {
                        Some(x) => exp_stake[i] = x,
                        None => arith_ok = false,
                    }
                    let rel = match period {
                        Duration::Height(h) => Expiration::AtHeight(f.block.height + h),
                        Duration::Time(t) => Expiration::AtTime(f.block.time.plus_seconds(t)),
                    };
                    exp_claims[i].push((amt, rel));
                    match rel {
                        Expiration::AtHeight(h) => self.deadlines_h.push(h),
                        Expiration::AtTime(t) => self.deadlines_t.push(t.nanos()),
                        _ => {}
                    }
                    if committed {
                        self.unbonds.entry(f.sender.clone()).or_default().push(UnbondRec {
                            amount: amt,
                            height: f.block.height,
                            time_s: f.block.time.seconds(),
                            nanos: f.block.time.nanos(),
                            paid: false,
                        });
                        self.donated = self.donated.saturating_add(if self.stake_cw20 { 0 } else { attached_stake_denom });
                    }
                    self.meter.flag("unbond_ok");
                }
            }
            "claim" => {
                // the oracle's own ledger decides what is due
                let mut due: u128 = 0;
                let mut due_idx: Vec<usize> = vec![];
                let mut immature: u128 = 0;
                if let Some(recs) = self.unbonds.get(&f.sender) {
                    for (k, rec) in recs.iter().enumerate() {
                        if rec.paid {
                            continue;
                        }
                        let mature = match period {
                            Duration::Height(h) => f.block.height >= rec.height.saturating_add(h),
                            Duration::Time(t) => f.block.time.nanos() >= rec.nanos.saturating_add(t.saturating_mul(1_000_000_000)),
                        };
                        if mature {
                            due = due.saturating_add(rec.amount);
                            due_idx.push(k);
                            let exactly = match period {
                                Duration::Height(h) => f.block.height == rec.height + h,
                                Duration::Time(t) => f.block.time.nanos() == rec.nanos + t * 1_000_000_000,
                            };
                            if exactly {
                                self.meter.hit("claim_exactly_at_maturity");
                            }
                        } else {
                            immature = immature.saturating_add(rec.amount);
                            let one_before = match period {
                                Duration::Height(h) => f.block.height + 1 == rec.height + h,
                                Duration::Time(t) => f.block.time.seconds() + 1 == rec.time_s + t,
                            };
                            if one_before {
                                self.meter.hit("claim_one_before_maturity");
                            }
                        }
                    }
                }
                // payout message
                let mut paid: Option<(String, u128)> = None;
                let mut payout_msgs = 0;
                for sm in &resp.messages {
                    match &sm.msg {
                        CosmosMsg::Bank(BankMsg::Send { to_address, amount }) => {
                            payout_msgs += 1;
                            if !self.stake_cw20 && amount.len() == 1 && amount[0].denom == STAKE_DENOM {
                                paid = Some((to_address.clone(), amount[0].amount.u128()));
                            }
                        }
                        CosmosMsg::Wasm(WasmMsg::Execute { contract_addr, msg, funds }) => {
                            if parse_hook(msg.as_slice()).is_some() {
                                continue;
                            }
                            payout_msgs += 1;
                            if self.stake_cw20 && *contract_addr == self.token && funds.is_empty() {
                                if let Ok(cw20::Cw20ExecuteMsg::Transfer { recipient, amount }) = cosmwasm_std::from_json(msg) {
                                    paid = Some((recipient, amount.u128()));
                                }
                            }
                        }
                        _ => payout_msgs += 1,
                    }
                }
                let ok = payout_msgs == 1 && paid == Some((f.sender.clone(), due)) && due > 0;
                if !ok {
                    self.viol(
                        out,
                        "C10",
                        "claim-payout",
                        json!({"due_zero": due == 0, "immature_pending": immature > 0}),
                        format!(
                            "Claim by {} paid {:?} in {} messages; matured and unpaid by the oracle's ledger: {} (immature: {})",
                            self.role(&f.sender), paid, payout_msgs, due, immature
                        ),
                    );
                }
                if let Some(i) = si {
                    // matured claims disappear from the list, the rest stays
                    let mut rest = vec![];
                    for (a, rel) in pre.claims[i].iter() {
                        let exp = match rel {
                            Expiration::AtHeight(h) => f.block.height >= *h,
                            Expiration::AtTime(t) => f.block.time >= *t,
                            Expiration::Never {} => false,
                        };
                        if !exp {
                            rest.push((*a, *rel));
                        }
                    }
                    exp_claims[i] = rest;
                }
                if committed {
                    if let Some(recs) = self.unbonds.get_mut(&f.sender) {
                        for k in due_idx {
                            recs[k].paid = true;
                        }
                    }
                    self.donated = self.donated.saturating_add(if self.stake_cw20 { 0 } else { attached_stake_denom });
                    self.meter.flag("claim_ok");
                }
            }
            _ => {
                if committed && !self.stake_cw20 {
                    self.donated = self.donated.saturating_add(attached_stake_denom);
                }
            }
        }
        if !arith_ok {
            self.viol(out, "C10", "ok-despite-impossible-arithmetic", json!({"call": kind}), format!("{} returned Ok", kind));
            return;
        }
        for i in 0..n {
            if post.staked[i] != exp_stake[i] {
                self.viol(
                    out,
                    "C10",
                    "stake-delta",
                    json!({"call": kind}),
                    format!(
                        "{} by {}: stake of {} is {} (was {}), expected {}",
                        kind,
                        self.role(&f.sender),
                        self.universe[i],
                        post.staked[i],
                        pre.staked[i],
                        exp_stake[i]
                    ),
                );
            }
            if post.claims[i] != exp_claims[i] {
                self.viol(
                    out,
                    "C10",
                    "claims-delta",
                    json!({"call": kind}),
                    format!(
                        "{} by {}: claims of {} are {:?} (were {:?}), expected {:?}",
                        kind,
                        self.role(&f.sender),
                        self.universe[i],
                        post.claims[i],
                        pre.claims[i],
                        exp_claims[i]
                    ),
                );
            }
        }
    }

    /// donations made by plain bank sends / token transfers straight to the staking contract
    pub(crate) fn book_donations(&mut self, evs: &[Event], r: &TxResult) {
        if !self.is_stake || !r.ok {
            return;
        }
        let group = self.group.clone();
        // a bank send to the group that is not the funds of a contract call into the group
        let mut call_funds: BTreeMap<String, u128> = BTreeMap::new();
        for ev in evs {
            if let Event::Frame(f) = ev {
                if f.addr == group && f.entry == Entry::Execute {
                    let a: u128 = f.funds.iter().filter(|c| c.denom == STAKE_DENOM).map(|c| c.amount.u128()).sum();
                    *call_funds.entry(f.sender.clone()).or_insert(0) += a;
                }
            }
        }
        for ev in evs {
            match ev {
                Event::Module(m) if m.ok && !self.stake_cw20 => {
                    if let ModMsg::Bank(BankMsg::Send { to_address, amount }) = &m.msg {
                        if *to_address == group {
                            let a: u128 = amount.iter().filter(|c| c.denom == STAKE_DENOM).map(|c| c.amount.u128()).sum();
                            let cf = call_funds.entry(m.sender.clone()).or_insert(0);
                            if *cf >= a {
                                *cf -= a; // funds of a call: booked by the frame logic
                            } else {
                                self.donated = self.donated.saturating_add(a);
                                self.meter.hit("direct_donation_to_stake_contract");
                            }
                        }
                    }
                }
                Event::Frame(f) if self.stake_cw20 && f.addr == self.token && f.entry == Entry::Execute && f.outcome.is_ok() => {
                    if let Ok(m) = cosmwasm_std::from_json::<cw20::Cw20ExecuteMsg>(&f.msg) {
                        match m {
                            cw20::Cw20ExecuteMsg::Transfer { recipient, amount } if recipient == group => {
                                self.donated = self.donated.saturating_add(amount.u128());
                                self.meter.hit("direct_donation_to_stake_contract");
                            }
                            cw20::Cw20ExecuteMsg::TransferFrom { recipient, amount, .. } if recipient == group => {
                                self.donated = self.donated.saturating_add(amount.u128());
                            }
                            _ => {}
                        }
                    }
                }
                _ => {}
            }
        }
    }
}
