//! World C — governance: cw4-group / cw4-stake, cw3-fixed-multisig, cw3-flex-multisig, a cw20 token for
//! deposits and staking, Sinks as hooks and proposal targets.
//! Monitors: C03, C05, C06, C15 (c_gov.rs), C09, C10, C14 (c_group.rs), and the cw3/cw4 part of C20.
use std::collections::BTreeMap;

use cosmwasm_std::{Binary, Coin, CosmosMsg, Env, Uint128, WasmMsg};
use serde::{Deserialize, Serialize};
use serde_json::{json, Value};

use crate::chain::{Chain, Fault, FaultMode, Kind, SinkAct};
use crate::snaps::{snap_cw3, snap_cw4, Snap};
use crate::trace::{coins, Step, Violation};
use crate::util::{addr_of, amount_near, Rng};
use crate::world::{Meter, World};

pub const STAKE_DENOM: &str = "ustake";
pub const DEP_DENOM: &str = "udep";
pub const PAY_DENOM: &str = "upay";

#[derive(Serialize, Deserialize, Clone, Debug)]
pub struct CCfg {
    pub users: Vec<String>,
    /// "group" | "stake_native" | "stake_cw20"
    pub group_kind: String,
    pub group_init: Value,
    pub group_admin: Option<String>,
    pub fixed: Option<Value>,
    pub flex: Option<Value>,
    pub hooks: Vec<String>,
    pub spb: u64,
    pub steps: usize,
    pub faults: bool,
    pub profile: String,
    pub bulk_members: usize,
    pub bulk_props: usize,
    pub donations: bool,
    pub same_block_edits: bool,
    pub initial_bonds: Vec<(String, String)>,
}

pub type Members = BTreeMap<String, u64>;

#[derive(Clone, Debug)]
pub struct PropTrack {
    pub id: u64,
    pub created_height: u64,
    pub created_block: cosmwasm_std::BlockInfo,
    pub snapshot: Members,
    pub snapshot_total: u128,
    pub content: Value,
    pub msgs: Vec<CosmosMsg>,
    pub proposer: String,
    pub ballots: BTreeMap<String, (String, u64)>,
    pub last_status: String,
    pub executed: u32,
    pub refunded: u32,
    pub deposit: Option<cw3::DepositInfo>,
    pub group_changed_earlier_in_block: bool,
    pub cur_total_at_propose: u128,
    pub cur_proposer_weight: Option<u64>,
    pub voted_down_early: bool,
    pub final_seen: u32,
}

#[derive(Clone, Debug, Default)]
pub struct MsigState {
    pub label: String,
    pub addr: String,
    pub flex: bool,
    pub props: BTreeMap<u64, PropTrack>,
    pub max_id: u64,
    pub voters0: Members,
    pub init: Value,
    pub executor: Option<Value>,
    pub max_voting_period: Option<cw_utils::Duration>,
    pub deposit: Option<cw3::DepositInfo>,
}

#[derive(Clone, Debug, PartialEq)]
pub struct UnbondRec {
    pub amount: u128,
    pub height: u64,
    pub time_s: u64,
    pub nanos: u64,
    pub paid: bool,
}

pub struct WorldC {
    pub(crate) cfg: CCfg,
    pub(crate) prop: String,
    pub chain: Chain,
    pub meter: Meter,
    pub(crate) users: Vec<String>,
    pub(crate) sinks: Vec<String>,
    pub(crate) universe: Vec<String>,
    pub(crate) token: String,
    pub(crate) group: String,
    pub(crate) group_ok: bool,
    pub(crate) is_stake: bool,
    pub(crate) stake_cw20: bool,
    pub(crate) group_height0: u64,
    /// membership after the latest transaction (from ListMembers)
    pub(crate) cur_members: Members,
    /// membership at the start of the current block
    pub(crate) block_start_members: Members,
    /// (height h, membership at the start of every block >= h until the next entry)
    pub(crate) history: Vec<(u64, Members)>,
    pub(crate) msigs: Vec<MsigState>,
    pub(crate) step_idx: usize,
    pub(crate) pending: Vec<Violation>,
    // stake ledger
    pub(crate) unbonds: BTreeMap<String, Vec<UnbondRec>>,
    pub(crate) donated: u128,
    pub(crate) stake_cfg: Option<(u128, u128, cw_utils::Duration)>,
    pub(crate) deadlines_h: Vec<u64>,
    pub(crate) deadlines_t: Vec<u64>,
    pub(crate) admin_gone: bool,
    pub(crate) last_group_obs: Option<crate::snaps::Cw4Snap>,
    pub(crate) last_full_obs: Option<Value>,
    pub(crate) bulk_addrs: Vec<String>,
    pub(crate) expect_ballots: Vec<(usize, u64, String, String)>,
    pub(crate) queue: std::collections::VecDeque<Step>,
    pub(crate) races_done: u32,
    pub(crate) member_races_done: u32,
}

pub fn wasm_exec(contract: &str, msg: &Value, funds: Vec<Coin>) -> Value {
    let c: CosmosMsg = CosmosMsg::Wasm(WasmMsg::Execute {
        contract_addr: contract.to_string(),
        msg: Binary::from(serde_json::to_vec(msg).unwrap()),
        funds,
    });
    serde_json::to_value(c).unwrap()
}

pub fn bank_send(to: &str, amount: u128, denom: &str) -> Value {
    let c: CosmosMsg = CosmosMsg::Bank(cosmwasm_std::BankMsg::Send {
        to_address: to.to_string(),
        amount: vec![Coin {
            denom: denom.to_string(),
            amount: Uint128::new(amount),
        }],
    });
    serde_json::to_value(c).unwrap()
}

impl WorldC {
    pub(crate) fn on(&self, p: &str) -> bool {
        self.prop == "ALL" || self.prop == p
    }

    pub(crate) fn viol(&self, out: &mut Vec<Violation>, prop: &str, class: &str, facts: Value, detail: String) {
        if self.on(prop) {
            let mut v = Violation::new(prop, &format!("{}/{}", prop, class), facts, detail);
            v.step = self.step_idx;
            out.push(v);
        }
    }

    pub(crate) fn idx(&self, a: &str) -> Option<usize> {
        self.universe.iter().position(|x| x == a)
    }

    pub(crate) fn role(&self, a: &str) -> &'static str {
        if self.users.first().map(|u| u == a).unwrap_or(false) {
            "user0"
        } else if self.users.iter().any(|u| u == a) {
            "user"
        } else if self.sinks.iter().any(|u| u == a) {
            "sink"
        } else if self.msigs.iter().any(|m| m.addr == a) {
            "multisig"
        } else if a == self.group {
            "group"
        } else if a == self.token {
            "token"
        } else {
            "other"
        }
    }

    pub(crate) fn token_balance(&self, who: &str) -> u128 {
        self.chain
            .query::<cw20::BalanceResponse>("token", &json!({"balance":{"address":who}}))
            .map(|b| b.balance.u128())
            .unwrap_or(0)
    }

    // ---------------------------------------------------------------- generation

    fn pick_user(&self, rng: &mut Rng) -> String {
        rng.pick(&self.users).clone()
    }

    fn pick_addr(&self, rng: &mut Rng) -> String {
        if !self.bulk_addrs.is_empty() && rng.chance(1, 10) {
            return rng.pick(&self.bulk_addrs).clone();
        }
        // a multisig may be a member of the group it votes with (and then proposes to itself from an executed proposal)
        if !self.msigs.is_empty() && rng.chance(1, if self.cfg.profile == "C15" { 5 } else { 12 }) {
            return rng.pick(&self.msigs).addr.clone();
        }
        rng.pick(&self.universe).clone()
    }

    fn gen_weight(&self, rng: &mut Rng) -> u64 {
        match rng.below(12) {
            0 | 1 => 0,
            2..=5 => 1,
            6 | 7 => 2,
            8 => 3,
            9 => rng.range(4, 100),
            10 => 1u64 << 40,
            _ => {
                if self.cfg.profile == "C09" || self.cfg.profile == "C03" {
                    1u64 << 62
                } else {
                    5
                }
            }
        }
    }

    fn gen_group_step(&mut self, rng: &mut Rng) -> Step {
        let admin = self
            .last_group_obs
            .as_ref()
            .and_then(|o| o.admin.clone());
        // who calls: mostly the admin, sometimes former admins / strangers
        let sender = match (&admin, rng.below(10)) {
            (Some(a), 0..=6) => a.clone(),
            _ => self.pick_user(rng),
        };
        let sender_is_contract = self.chain.label_of(&sender).is_some();
        let msg = if self.is_stake {
            match rng.below(10) {
                0..=1 => json!({"update_admin":{"admin": if rng.chance(1,4) { Value::Null } else { json!(self.pick_user(rng)) }}}),
                2..=5 => json!({"add_hook":{"addr": rng.pick(&self.sinks).clone()}}),
                _ => json!({"remove_hook":{"addr": rng.pick(&self.sinks).clone()}}),
            }
        } else {
            match rng.below(20) {
                0 => json!({"update_admin":{"admin": if rng.chance(1,3) { Value::Null } else { json!(self.pick_user(rng)) }}}),
                1 | 2 => json!({"add_hook":{"addr": rng.pick(&self.sinks).clone()}}),
                3 => json!({"remove_hook":{"addr": rng.pick(&self.sinks).clone()}}),
                _ => {
                    let na = rng.below(3);
                    let nr = rng.below(3);
                    let mut add = vec![];
                    for _ in 0..na {
                        let a = self.pick_addr(rng);
                        // re-weight to the same value sometimes
                        let w = if rng.chance(1, 6) {
                            self.cur_members.get(&a).cloned().unwrap_or(1)
                        } else {
                            self.gen_weight(rng)
                        };
                        add.push(json!({"addr": a, "weight": w}));
                    }
                    if rng.chance(1, 25) && !add.is_empty() {
                        let d = add[0].clone();
                        add.push(d);
                    }
                    let mut remove = vec![];
                    for _ in 0..nr {
                        // overlap with add sometimes
                        if !add.is_empty() && rng.chance(1, 4) {
                            remove.push(add[0]["addr"].as_str().unwrap().to_string());
                        } else {
                            remove.push(self.pick_addr(rng));
                        }
                    }
                    json!({"update_members":{"add": add, "remove": remove}})
                }
            }
        };
        // a registered (or would-be) hook sometimes edits the hook list itself, naming its own address
        let hook_named = msg
            .get("remove_hook")
            .or_else(|| msg.get("add_hook"))
            .and_then(|h| h["addr"].as_str())
            .map(|s| s.to_string());
        let (sender, sender_is_contract) = match hook_named {
            Some(h) if rng.chance(1, 4) => (h, true),
            _ => (sender, sender_is_contract),
        };
        let (fault, script) = self.gen_fault_and_script(rng);
        if sender_is_contract {
            // a contract admin (sink / multisig) acts through a sink relay
            let label = self.chain.label_of(&sender).unwrap().to_string();
            if label.starts_with("sink") {
                let mut script = script;
                script.insert(0, (label.clone(), SinkAct::Call(vec![wasm_exec(&self.group, &msg, vec![])])));
                return Step::Tx {
                    sender: self.pick_user(rng),
                    target: label,
                    msg: json!({}),
                    funds: vec![],
                    fault,
                    script,
                };
            }
        }
        // a multisig admin acts only through its proposals; a direct call is made by a (non-admin) user instead
        let sender = if sender_is_contract { self.pick_user(rng) } else { sender };
        Step::Tx { sender, target: "group".into(), msg, funds: vec![], fault, script }
    }

    fn gen_fault_and_script(&mut self, rng: &mut Rng) -> (Option<Fault>, Vec<(String, SinkAct)>) {
        let mut script = vec![];
        if rng.chance(1, 6) {
            // a hook / target sink misbehaves
            let s = format!("sink{}", rng.below(self.sinks.len() as u64));
            let act = if rng.chance(2, 3) || self.last_group_obs.as_ref().and_then(|o| o.admin.clone()).is_none() {
                SinkAct::Fail
            } else {
                // re-entrancy: the hook edits the group from inside the notification
                let a = self.pick_addr(rng);
                let m = if self.is_stake {
                    json!({"add_hook":{"addr": a}})
                } else {
                    json!({"update_members":{"add":[{"addr": a, "weight": self.gen_weight(rng)}],"remove":[]}})
                };
                SinkAct::Call(vec![wasm_exec(&self.group, &m, vec![])])
            };
            script.push((s, act));
        }
        let fault = if self.cfg.faults && rng.chance(1, 10) {
            let targets: Vec<String> = {
                let mut t = vec!["bank".to_string(), self.group.clone()];
                if !self.token.is_empty() {
                    t.push(self.token.clone());
                }
                for m in &self.msigs {
                    t.push(m.addr.clone());
                }
                t.extend(self.sinks.iter().cloned());
                t
            };
            Some(Fault {
                target: rng.pick(&targets).clone(),
                nth: rng.range(1, 2) as u32,
                mode: if rng.chance(1, 2) { FaultMode::Early } else { FaultMode::Late },
            })
        } else {
            None
        };
        (fault, script)
    }

    fn gen_stake_step(&mut self, rng: &mut Rng) -> Step {
        let user = self.pick_user(rng);
        let (tpw, min_bond, _) = self.stake_cfg.unwrap_or((1, 1, cw_utils::Duration::Height(1)));
        let ui = self.idx(&user).unwrap_or(0);
        let staked = self
            .last_group_obs
            .as_ref()
            .and_then(|o| o.staked.get(ui).cloned())
            .unwrap_or(0);
        let (fault, script) = self.gen_fault_and_script(rng);
        let k = rng.below(100);
        if k < 40 {
            // bond
            let bal = if self.stake_cw20 {
                self.token_balance(&user)
            } else {
                self.chain.bank_balance(&user, STAKE_DENOM)
            };
            let amt = match rng.below(10) {
                0 => min_bond,
                1 => min_bond.saturating_sub(1),
                2 => tpw,
                3 => tpw.saturating_mul(3).saturating_add(1),
                4 => (u64::MAX as u128).saturating_mul(tpw).saturating_add(tpw.saturating_mul(6)),
                // a weight that fits in u64 on its own; two of them do not
                6 if tpw <= (1u128 << 30) => *rng.pick(&[1u128 << 63, (1u128 << 63) + 5, (u64::MAX as u128) - 3]) * tpw,
                5 => amount_near(rng, bal),
                _ => (tpw.max(1)).saturating_mul(rng.range(1, 20) as u128).min(bal.max(1)),
            };
            if self.stake_cw20 {
                let m = json!({"send":{"contract": self.group, "amount": amt.to_string(), "msg": Binary::from(br#"{"bond":{}}"#.to_vec()).to_base64()}});
                return Step::Tx { sender: user, target: "token".into(), msg: m, funds: vec![], fault, script };
            }
            let funds = match rng.below(16) {
                0 => vec![(DEP_DENOM.to_string(), amt.to_string())],
                14 | 15 => vec![(STAKE_DENOM.to_uppercase(), amt.min(1_000_000).to_string())], // a different bank denom that only looks alike
                1 => vec![(STAKE_DENOM.to_string(), amt.to_string()), (DEP_DENOM.to_string(), "1".to_string())],
                2 => vec![],
                _ => vec![(STAKE_DENOM.to_string(), amt.to_string())],
            };
            return Step::Tx { sender: user, target: "group".into(), msg: json!({"bond":{}}), funds, fault, script };
        }
        if k < 65 {
            let amt = match rng.below(8) {
                0 => staked,
                1 => staked.saturating_add(1),
                2 => 0,
                3 => staked.saturating_sub(min_bond.saturating_sub(1)),
                _ => amount_near(rng, staked),
            };
            let funds = if self.cfg.donations && !self.stake_cw20 && rng.chance(1, 12) {
                vec![(STAKE_DENOM.to_string(), "7".to_string())]
            } else {
                vec![]
            };
            return Step::Tx {
                sender: user,
                target: "group".into(),
                msg: json!({"unbond":{"tokens": amt.to_string()}}),
                funds,
                fault,
                script,
            };
        }
        if k < 85 {
            return Step::Tx { sender: user, target: "group".into(), msg: json!({"claim":{}}), funds: vec![], fault, script };
        }
        if k < 92 {
            // foreign token attempts
            return match rng.below(3) {
                0 => {
                    // a fake token (sink) calls Receive without moving anything
                    let m = json!({"receive":{"sender": user, "amount": "1000000", "msg": Binary::from(br#"{"bond":{}}"#.to_vec()).to_base64()}});
                    Step::Tx {
                        sender: user,
                        target: "sink1".into(),
                        msg: json!({}),
                        funds: vec![],
                        fault: None,
                        script: vec![("sink1".into(), SinkAct::Call(vec![wasm_exec(&self.group, &m, vec![])]))],
                    }
                }
                1 => {
                    // the real cw20 offered to a native config (or vice versa: native offered to cw20 config)
                    if self.stake_cw20 {
                        Step::Tx {
                            sender: user,
                            target: "group".into(),
                            msg: json!({"bond":{}}),
                            funds: vec![(STAKE_DENOM.to_string(), "50".to_string())],
                            fault: None,
                            script: vec![],
                        }
                    } else {
                        let m = json!({"send":{"contract": self.group, "amount": "50", "msg": Binary::from(br#"{"bond":{}}"#.to_vec()).to_base64()}});
                        Step::Tx { sender: user, target: "token".into(), msg: m, funds: vec![], fault: None, script: vec![] }
                    }
                }
                _ => {
                    // a second real cw20
                    let m = json!({"send":{"contract": self.group, "amount": "50", "msg": Binary::from(br#"{"bond":{}}"#.to_vec()).to_base64()}});
                    Step::Tx { sender: user, target: "token2".into(), msg: m, funds: vec![], fault: None, script: vec![] }
                }
            };
        }
        if self.cfg.donations {
            if self.stake_cw20 {
                let m = json!({"transfer":{"recipient": self.group, "amount": "11"}});
                return Step::Tx { sender: user, target: "token".into(), msg: m, funds: vec![], fault: None, script: vec![] };
            }
            return Step::Bank { from: user, to: "group".into(), coins: vec![(STAKE_DENOM.to_string(), "11".to_string())] };
        }
        self.gen_group_step(rng)
    }

    fn gen_payload(&mut self, rng: &mut Rng, m: &MsigState) -> Vec<Value> {
        let n = match rng.below(10) {
            0 => 0,
            1..=6 => 1,
            _ => 2,
        };
        let self_admin = self.last_group_obs.as_ref().and_then(|o| o.admin.clone()).map(|a| a == m.addr).unwrap_or(false);
        // a multisig that is a member of its own group may open proposals itself (from an executed proposal)
        if self.cur_members.contains_key(&m.addr) && rng.chance(1, 3) {
            self.meter.hit("multisig_proposes_to_itself");
            let inner = json!({"propose":{"title":"by the multisig","description":"self","msgs":[],"latest":null}});
            return vec![wasm_exec(&m.addr, &inner, vec![])];
        }
        // a treasury may spend whatever it holds — including the coins other proposers deposited
        if let (Some(d), true) = (&m.deposit, rng.chance(1, 8)) {
            let to = self.pick_user(rng);
            let held = match &d.denom {
                cw20::Denom::Native(dn) => self.chain.bank_balance(&m.addr, dn),
                cw20::Denom::Cw20(_) => self.token_balance(&m.addr),
            };
            let amt = *rng.pick(&[held, held, d.amount.u128(), held.saturating_sub(d.amount.u128().saturating_sub(1))]);
            if amt > 0 {
                self.meter.hit("proposal_spends_the_deposit_pot");
                return vec![match &d.denom {
                    cw20::Denom::Native(dn) => bank_send(&to, amt, dn),
                    cw20::Denom::Cw20(t) => wasm_exec(t.as_str(), &json!({"transfer":{"recipient": to, "amount": amt.to_string()}}), vec![]),
                }];
            }
        }
        (0..n)
            .map(|_| match if self_admin && rng.chance(1, 2) { 11 } else { rng.below(12) } {
                0..=3 => bank_send(&self.pick_user(rng), rng.range(1, 1000) as u128, PAY_DENOM),
                4..=6 => { let s = rng.pick(&self.sinks).clone(); let n = rng.below(100); wasm_exec(&s, &json!({"ping": n}), vec![]) },
                7 => {
                    let id = if m.max_id > 0 { rng.range(1, m.max_id + 1) } else { 1 };
                    wasm_exec(&m.addr, &json!({"execute":{"proposal_id": id}}), vec![])
                }
                8 => {
                    let id = if m.max_id > 0 { rng.range(1, m.max_id + 1) } else { 1 };
                    let inner = match rng.below(3) {
                        0 => json!({"vote":{"proposal_id": id, "vote": "yes"}}),
                        1 => json!({"close":{"proposal_id": id}}),
                        _ => json!({"propose":{"title":"nested","description":"n","msgs":[],"latest":null}}),
                    };
                    wasm_exec(&m.addr, &inner, vec![])
                }
                9 => {
                    // the other multisig
                    let other = self.msigs.iter().find(|x| x.addr != m.addr).map(|x| x.addr.clone()).unwrap_or(m.addr.clone());
                    wasm_exec(&other, &json!({"execute":{"proposal_id": 1}}), vec![])
                }
                _ => {
                    let a = self.pick_addr(rng);
                    if self.is_stake {
                        wasm_exec(&self.group, &json!({"add_hook":{"addr": a}}), vec![])
                    } else if rng.chance(1, 3) {
                        let r = self.pick_addr(rng);
                        wasm_exec(&self.group, &json!({"update_members":{"add":[],"remove":[r]}}), vec![])
                    } else {
                        let w = self.gen_weight(rng);
                        wasm_exec(&self.group, &json!({"update_members":{"add":[{"addr": a, "weight": w}],"remove":[]}}), vec![])
                    }
                }
            })
            .collect()
    }

    /// contracts cannot sign: a step whose sender is a Sink becomes a user's call into that Sink, which relays it
    fn relay_if_contract(&self, rng: &mut Rng, s: Step) -> Step {
        if let Step::Tx { sender, target, msg, funds, fault, mut script } = s.clone() {
            if let Some(label) = self.chain.label_of(&sender).map(|x| x.to_string()) {
                if label.starts_with("sink") && funds.is_empty() {
                    let taddr = self.chain.addr(&target);
                    script.insert(0, (label.clone(), SinkAct::Call(vec![wasm_exec(&taddr, &msg, vec![])])));
                    return Step::Tx { sender: self.pick_user(rng), target: label, msg: json!({}), funds: vec![], fault, script };
                }
            }
        }
        s
    }

    fn gen_msig_step(&mut self, rng: &mut Rng) -> Step {
        let s = self.gen_msig_step_inner(rng);
        self.relay_if_contract(rng, s)
    }

    fn gen_msig_step_inner(&mut self, rng: &mut Rng) -> Step {
        let mi = rng.below(self.msigs.len() as u64) as usize;
        let m = self.msigs[mi].clone();
        let block = self.chain.block();
        let open_ids: Vec<u64> = m
            .props
            .values()
            .filter(|p| p.last_status == "Open" || p.last_status == "Passed")
            .map(|p| p.id)
            .collect();
        let any_id = |rng: &mut Rng| -> u64 {
            if !open_ids.is_empty() && rng.chance(5, 6) {
                *rng.pick(&open_ids)
            } else if m.max_id > 0 {
                rng.range(1, m.max_id + 1)
            } else {
                1
            }
        };
        let (fault, mut script) = self.gen_fault_and_script(rng);
        // voters first, then outsiders
        let voters: Vec<String> = if m.flex {
            self.cur_members.keys().cloned().collect()
        } else {
            m.voters0.keys().cloned().collect()
        };
        let pick_voter = |rng: &mut Rng, w: &WorldC| -> String {
            if !voters.is_empty() && rng.chance(5, 6) {
                rng.pick(&voters).clone()
            } else {
                w.pick_user(rng)
            }
        };
        let weights: [u32; 4] = match self.cfg.profile.as_str() {
            "C15" => [30, 40, 15, 15],
            "C05" => [22, 38, 25, 15],
            _ => [22, 50, 16, 12],
        };
        let few_props = m.props.len() < 2;
        let k = if few_props && rng.chance(1, 2) { 0 } else { rng.weighted(&weights) };
        match k {
            0 => {
                let payload = self.gen_payload(rng, &m);
                let latest = match rng.below(8) {
                    0 => json!({"never":{}}),
                    1 => {
                        let h = block.height + *rng.pick(&[0u64, 1, 2, 5, 100000]);
                        json!({"at_height": h})
                    }
                    2 => {
                        let t = block.time.plus_seconds(*rng.pick(&[0u64, 1, 5, 1000000]));
                        json!({"at_time": t.nanos().to_string()})
                    }
                    _ => Value::Null,
                };
                let sender = pick_voter(rng, self);
                // deposit payment
                let mut funds: Vec<(String, String)> = vec![];
                if let Some(d) = &m.deposit {
                    match &d.denom {
                        cw20::Denom::Native(dn) => {
                            let a = d.amount.u128();
                            funds = match rng.below(10) {
                                0 => vec![],
                                1 => vec![(dn.clone(), a.saturating_sub(1).max(1).to_string())],
                                2 => vec![(dn.clone(), a.saturating_add(1).to_string())],
                                3 => vec![(PAY_DENOM.to_string(), a.to_string())],
                                4 => vec![(dn.clone(), a.to_string()), (PAY_DENOM.to_string(), "1".to_string())],
                                _ => vec![(dn.clone(), a.to_string())],
                            };
                        }
                        cw20::Denom::Cw20(_) => {
                            if rng.chance(1, 12) {
                                funds = vec![(DEP_DENOM.to_string(), "5".to_string())];
                            }
                        }
                    }
                }
                Step::Tx {
                    sender,
                    target: m.label.clone(),
                    msg: json!({"propose":{"title": format!("p{}", self.step_idx), "description":"d", "msgs": payload, "latest": latest}}),
                    funds,
                    fault,
                    script,
                }
            }
            1 => {
                let vote = *rng.pick(&["yes", "yes", "yes", "no", "no", "abstain", "abstain", "veto"]);
                Step::Tx {
                    sender: pick_voter(rng, self),
                    target: m.label.clone(),
                    msg: json!({"vote":{"proposal_id": any_id(rng), "vote": vote}}),
                    funds: vec![],
                    fault,
                    script,
                }
            }
            2 => {
                // re-entrant receiver on execution, sometimes
                if rng.chance(1, 6) {
                    let id = any_id(rng);
                    let s = format!("sink{}", rng.below(self.sinks.len() as u64));
                    script.push((s, SinkAct::Call(vec![wasm_exec(&m.addr, &json!({"execute":{"proposal_id": id}}), vec![])])));
                }
                Step::Tx {
                    sender: pick_voter(rng, self),
                    target: m.label.clone(),
                    msg: json!({"execute":{"proposal_id": any_id(rng)}}),
                    funds: vec![],
                    fault,
                    script,
                }
            }
            _ => Step::Tx {
                sender: pick_voter(rng, self),
                target: m.label.clone(),
                msg: json!({"close":{"proposal_id": any_id(rng)}}),
                funds: vec![],
                fault,
                script,
            },
        }
    }

    /// F3 by construction: jump the clock to a deadline -1 / exactly / +1 and queue the call that the deadline
    /// guards (Vote / Execute / Close on that proposal; Claim by that staker) as the very next transaction
    fn gen_boundary_sequence(&mut self, rng: &mut Rng) -> Option<Step> {
        let b = self.chain.block();
        let off = *rng.pick(&[0u64, 1, 1, 2]); // target = deadline + off - 1
        let mut cands: Vec<(cw_utils::Expiration, Step)> = vec![];
        for m in &self.msigs {
            for t in m.props.values() {
                if t.last_status == "Executed" {
                    continue;
                }
                if let Ok(e) = serde_json::from_value::<cw_utils::Expiration>(t.content["expires"].clone()) {
                    let voters: Vec<String> = t.snapshot.keys().filter(|v| !t.ballots.contains_key(*v)).cloned().collect();
                    let who = if !voters.is_empty() && rng.chance(3, 4) { rng.pick(&voters).clone() } else { self.pick_user(rng) };
                    let msg = match rng.below(6) {
                        0 | 1 | 2 => json!({"vote":{"proposal_id": t.id, "vote": *rng.pick(&["yes", "no", "yes", "abstain", "veto"])}}),
                        3 | 4 => json!({"close":{"proposal_id": t.id}}),
                        _ => json!({"execute":{"proposal_id": t.id}}),
                    };
                    cands.push((e, Step::Tx { sender: who, target: m.label.clone(), msg, funds: vec![], fault: None, script: vec![] }));
                }
            }
        }
        if self.is_stake {
            if let Some((_, _, period)) = self.stake_cfg {
                for (u, recs) in &self.unbonds {
                    for r in recs.iter().filter(|r| !r.paid) {
                        let e = match period {
                            cw_utils::Duration::Height(h) => cw_utils::Expiration::AtHeight(r.height + h),
                            cw_utils::Duration::Time(t) => cw_utils::Expiration::AtTime(cosmwasm_std::Timestamp::from_nanos(r.nanos).plus_seconds(t)),
                        };
                        cands.push((e, Step::Tx { sender: u.clone(), target: "group".into(), msg: json!({"claim":{}}), funds: vec![], fault: None, script: vec![] }));
                    }
                }
            }
        }
        if cands.is_empty() {
            return None;
        }
        let (e, follow) = rng.pick(&cands).clone();
        let jump = match e {
            cw_utils::Expiration::AtHeight(h) => {
                let target = (h + off).saturating_sub(1);
                if target > b.height {
                    Some(Step::Block { dh: target - b.height, dt: (target - b.height).saturating_mul(self.cfg.spb), dn: 0 })
                } else {
                    None
                }
            }
            cw_utils::Expiration::AtTime(t) => {
                // nanosecond-exact: one second before, one nanosecond before, exactly, one nanosecond after, one second after
                const S: u64 = 1_000_000_000;
                let target = match (off, rng.below(3)) {
                    (0, 0) => t.nanos().saturating_sub(1),
                    (0, _) => t.nanos().saturating_sub(S),
                    (1, _) => t.nanos(),
                    (_, 0) => t.nanos().saturating_add(1),
                    (_, _) => t.nanos().saturating_add(S),
                };
                if target > b.time.nanos() {
                    let d = target - b.time.nanos();
                    if d % S != 0 {
                        self.meter.hit("clock_jump_with_subsecond_part");
                    }
                    Some(Step::Block { dh: 1, dt: d / S, dn: d % S })
                } else {
                    None
                }
            }
            _ => None,
        }?;
        self.queue.push_back(follow);
        self.meter.hit("call_scheduled_on_a_deadline_boundary");
        Some(jump)
    }

    /// F1 for governance: the group is re-weighted and a proposal opened in the same block, then members vote one
    /// after another in a fixed pattern (settling the proposal early and voting on after it has settled).
    /// The group reports "start of block" for the proposal's height, so ballots and total may disagree (the
    /// known C06 deviation) — what is examined here is everything downstream of that state.
    fn gen_reweight_race(&mut self, rng: &mut Rng) -> Option<Step> {
        if self.races_done >= 2 || self.users.len() < 3 {
            return None;
        }
        let m = self.msigs.iter().find(|m| m.flex)?.clone();
        let admin = if self.is_stake {
            String::new()
        } else {
            let a = self.last_group_obs.as_ref().and_then(|o| o.admin.clone())?;
            if self.chain.label_of(&a).is_some() {
                return None;
            }
            a
        };
        self.races_done += 1;
        let n = (3 + rng.below(2) as usize).min(self.users.len());
        let who: Vec<String> = self.users.iter().take(n).cloned().collect();
        let tx = |sender: &str, target: &str, msg: Value, funds: Vec<(String, String)>| Step::Tx {
            sender: sender.to_string(),
            target: target.to_string(),
            msg,
            funds,
            fault: None,
            script: vec![],
        };
        let heavy: Vec<u64> = who.iter().map(|_| rng.range(2, 8)).collect();
        let light: Vec<u64> = who.iter().map(|_| *rng.pick(&[1u64, 1, 1, 2])).collect();
        let (first, second) = if rng.chance(3, 4) { (heavy, light) } else { (light, heavy) };
        let members = |ws: &[u64]| -> Vec<Value> { who.iter().zip(ws).map(|(a, w)| json!({"addr": a, "weight": w})).collect() };
        let mut seq: Vec<Step> = vec![];
        if self.is_stake {
            // the same by staking: everybody bonds `first` weights, then moves to `second` right before the proposal
            let (tpw, _, _) = self.stake_cfg.unwrap_or((1, 1, cw_utils::Duration::Height(1)));
            let bond = |u: &str, amt: u128, w: &WorldC| -> Step {
                if w.stake_cw20 {
                    let msg = json!({"send":{"contract": w.group, "amount": amt.to_string(), "msg": Binary::from(br#"{"bond":{}}"#.to_vec()).to_base64()}});
                    tx(u, "token", msg, vec![])
                } else {
                    tx(u, "group", json!({"bond":{}}), vec![(STAKE_DENOM.to_string(), amt.to_string())])
                }
            };
            for (u, w) in who.iter().zip(&first) {
                seq.push(bond(u, tpw.saturating_mul(*w as u128), self));
            }
            seq.push(Step::Block { dh: 1, dt: self.cfg.spb, dn: 0 });
            for ((u, a), b) in who.iter().zip(&first).zip(&second) {
                if b > a {
                    seq.push(bond(u, tpw.saturating_mul((*b - *a) as u128), self));
                } else if a > b {
                    seq.push(tx(u, "group", json!({"unbond":{"tokens": tpw.saturating_mul((*a - *b) as u128).to_string()}}), vec![]));
                }
            }
        } else {
            seq.push(tx(&admin, "group", json!({"update_members":{"add": members(&first), "remove": []}}), vec![]));
            seq.push(Step::Block { dh: 1, dt: self.cfg.spb, dn: 0 });
            seq.push(tx(&admin, "group", json!({"update_members":{"add": members(&second), "remove": []}}), vec![]));
        }
        let payload = self.gen_payload(rng, &m);
        let mut funds: Vec<(String, String)> = vec![];
        if let Some(d) = &m.deposit {
            if let cw20::Denom::Native(dn) = &d.denom {
                funds = vec![(dn.clone(), d.amount.u128().to_string())];
            }
        }
        let id = m.max_id + 1;
        seq.push(tx(&who[0], &m.label, json!({"propose":{"title": format!("race{}", self.step_idx), "description":"d", "msgs": payload, "latest": Value::Null}}), funds));
        if rng.chance(3, 4) {
            seq.push(Step::Block { dh: 1, dt: self.cfg.spb, dn: 0 });
        }
        let pattern: &[&str] = *rng.pick(&[
            &["no", "yes", "yes"][..],
            &["yes", "no", "no"][..],
            &["no", "no", "yes"][..],
            &["yes", "veto", "no"][..],
            &["abstain", "no", "yes"][..],
        ]);
        for (k, v) in pattern.iter().enumerate() {
            if k + 1 < who.len() {
                seq.push(tx(&who[k + 1], &m.label, json!({"vote":{"proposal_id": id, "vote": v}}), vec![]));
            }
        }
        if rng.chance(1, 2) {
            seq.push(tx(&who[0], &m.label, json!({"execute":{"proposal_id": id}}), vec![]));
        }
        self.meter.hit("reweight_and_propose_in_one_block");
        let mut it = seq.into_iter();
        let head = it.next()?;
        for s in it {
            self.queue.push_back(s);
        }
        Some(head)
    }

    /// F1, second shape: a member's standing changes and that very member acts in the same block (Execute of a
    /// passed proposal under `executor: member`, Vote, Propose) — in either order.
    fn gen_membership_race(&mut self, rng: &mut Rng) -> Option<Step> {
        if self.member_races_done >= 3 {
            return None;
        }
        let flex: Vec<MsigState> = self.msigs.iter().filter(|m| m.flex).cloned().collect();
        if flex.is_empty() {
            return None;
        }
        let m = rng.pick(&flex).clone();
        let tx = |sender: &str, target: &str, msg: Value| Step::Tx { sender: sender.to_string(), target: target.to_string(), msg, funds: vec![], fault: None, script: vec![] };
        // who: a user that is a member now, or (for joins) one that is not
        let members: Vec<String> = self.users.iter().filter(|u| self.cur_members.contains_key(*u)).cloned().collect();
        let outsiders: Vec<String> = self.users.iter().filter(|u| !self.cur_members.contains_key(*u)).cloned().collect();
        let leaving = outsiders.is_empty() || (!members.is_empty() && rng.chance(2, 3));
        let who = if leaving { rng.pick(&members).clone() } else { rng.pick(&outsiders).clone() };
        if leaving && members.is_empty() {
            return None;
        }
        let change: Step = if self.is_stake {
            let (tpw, min_bond, _) = self.stake_cfg.unwrap_or((1, 1, cw_utils::Duration::Height(1)));
            if leaving {
                let ui = self.idx(&who).unwrap_or(0);
                let staked = self.last_group_obs.as_ref().and_then(|o| o.staked.get(ui).cloned()).unwrap_or(0);
                if staked == 0 {
                    return None;
                }
                tx(&who, "group", json!({"unbond":{"tokens": staked.to_string()}}))
            } else {
                let amt = tpw.max(min_bond).saturating_mul(3);
                if self.stake_cw20 {
                    tx(&who, "token", json!({"send":{"contract": self.group, "amount": amt.to_string(), "msg": Binary::from(br#"{"bond":{}}"#.to_vec()).to_base64()}}))
                } else {
                    Step::Tx { sender: who.clone(), target: "group".into(), msg: json!({"bond":{}}), funds: vec![(STAKE_DENOM.to_string(), amt.to_string())], fault: None, script: vec![] }
                }
            }
        } else {
            let admin = self.last_group_obs.as_ref().and_then(|o| o.admin.clone())?;
            if self.chain.label_of(&admin).is_some() {
                return None;
            }
            if leaving {
                if rng.chance(2, 3) {
                    tx(&admin, "group", json!({"update_members":{"add": [], "remove": [who]}}))
                } else {
                    tx(&admin, "group", json!({"update_members":{"add": [{"addr": who, "weight": 0}], "remove": []}}))
                }
            } else {
                tx(&admin, "group", json!({"update_members":{"add": [{"addr": who, "weight": rng.range(1, 5)}], "remove": []}}))
            }
        };
        let passed: Vec<u64> = m.props.values().filter(|p| p.last_status == "Passed").map(|p| p.id).collect();
        let open: Vec<u64> = m.props.values().filter(|p| p.last_status == "Open" || p.last_status == "Passed").map(|p| p.id).collect();
        let act = match rng.below(4) {
            0 | 1 if !passed.is_empty() => tx(&who, &m.label, json!({"execute":{"proposal_id": *rng.pick(&passed)}})),
            2 if !open.is_empty() => tx(&who, &m.label, json!({"vote":{"proposal_id": *rng.pick(&open), "vote": *rng.pick(&["yes", "no", "yes"])}})),
            _ => {
                let payload = self.gen_payload(rng, &m);
                let mut funds: Vec<(String, String)> = vec![];
                if let Some(d) = &m.deposit {
                    if let cw20::Denom::Native(dn) = &d.denom {
                        funds = vec![(dn.clone(), d.amount.u128().to_string())];
                    }
                }
                Step::Tx {
                    sender: who.clone(),
                    target: m.label.clone(),
                    msg: json!({"propose":{"title": format!("mr{}", self.step_idx), "description":"d", "msgs": payload, "latest": Value::Null}}),
                    funds,
                    fault: None,
                    script: vec![],
                }
            }
        };
        self.member_races_done += 1;
        self.meter.hit("member_changed_and_acted_in_one_block");
        // usually the change comes first (the stale-snapshot direction); sometimes the action does
        if rng.chance(3, 4) {
            self.queue.push_back(act);
            Some(change)
        } else {
            self.queue.push_back(change);
            Some(act)
        }
    }

    fn gen_block(&mut self, rng: &mut Rng) -> Step {
        let b = self.chain.block();
        if rng.chance(1, 2) && (!self.deadlines_h.is_empty() || !self.deadlines_t.is_empty()) {
            let off = rng.below(3);
            if !self.deadlines_h.is_empty() && (self.deadlines_t.is_empty() || rng.chance(1, 2)) {
                let d = *rng.pick(&self.deadlines_h);
                let target = (d + off).saturating_sub(1);
                if target > b.height {
                    let dh = target - b.height;
                    return Step::Block { dh, dt: dh.saturating_mul(self.cfg.spb), dn: 0 };
                }
            } else if !self.deadlines_t.is_empty() {
                let d = *rng.pick(&self.deadlines_t);
                if let Some((dt, dn)) = crate::util::jump_around(rng, b.time.nanos(), d) {
                    return Step::Block { dh: 1, dt, dn };
                }
            }
        }
        let dh = *rng.pick(&[1u64, 1, 1, 1, 2, 5, 1000]);
        // real block times are not aligned to whole seconds
        let dn = crate::util::subsecond(rng);
        if dn != 0 {
            self.meter.hit("clock_jump_with_subsecond_part");
        }
        Step::Block { dh, dt: dh.saturating_mul(self.cfg.spb), dn }
    }
}

fn dec(rng: &mut Rng, lo_permille: u64, hi_permille: u64, fine: bool) -> String {
    // decimal string in [lo, hi] with up to 3 (or, if fine, up to 18) decimals
    let p = rng.range(lo_permille, hi_permille);
    if p == 1000 {
        return "1".to_string();
    }
    if fine && rng.chance(1, 4) {
        // a hair above a round value: only digits beyond the ninth decimal are set
        let tail = *rng.pick(&[1u64, 1, 100_000_000, 999_999_999, 123_456_789]);
        format!("0.{:03}000000{:09}", p, tail)
    } else if fine && rng.chance(1, 2) {
        let extra = rng.below(1_000_000_000_000_000);
        format!("0.{:03}{:015}", p, extra)
    } else {
        format!("0.{:03}", p)
    }
}

/// a percentage that puts the requirement exactly on (or a hair above) an achievable tally: k / total to nine
/// decimals, optionally followed by digits beyond the ninth
fn dec_on_tally(rng: &mut Rng, total: u64) -> Option<String> {
    if total < 2 || total > 1_000_000 {
        return None;
    }
    let k = rng.range((total + 1) / 2, total);
    if k == total {
        return Some("1".to_string());
    }
    let nine = (k as u128 * 1_000_000_000) / total as u128; // floor(k/total * 1e9)
    let tail = *rng.pick(&[0u64, 0, 1, 100_000_000, 500_000_000, 999_999_999]);
    Some(format!("0.{:09}{:09}", nine, tail))
}

fn gen_threshold(rng: &mut Rng, total_hint: u64, fine: bool) -> Value {
    if fine && rng.chance(1, 3) {
        if let Some(p) = dec_on_tally(rng, total_hint) {
            return if rng.chance(1, 2) {
                json!({"absolute_percentage":{"percentage": p}})
            } else {
                json!({"threshold_quorum":{"threshold": p, "quorum": *rng.pick(&["0.001", "0.5", "1"])}})
            };
        }
    }
    match rng.below(3) {
        0 => {
            let w = match rng.below(6) {
                0 => 1,
                1 => total_hint.max(1),
                2 => total_hint.saturating_add(1), // unreachable: must be rejected
                3 => 0,                            // invalid
                _ => rng.range(1, total_hint.max(1)),
            };
            json!({"absolute_count":{"weight": w}})
        }
        1 => {
            let p = match rng.below(10) {
                0 => "0.5".to_string(),
                1 => "1".to_string(),
                2 => "0.499".to_string(), // invalid
                3 if fine => (*rng.pick(&["0.500000000000000001", "0.5000000001", "0.666666666666666666", "0.666666666666666667", "0.999999999999999999"])).to_string(),
                _ => dec(rng, 500, 1000, fine),
            };
            json!({"absolute_percentage":{"percentage": p}})
        }
        _ => {
            let t = match rng.below(10) {
                0 => "0.5".to_string(),
                1 => "1".to_string(),
                2 if fine => (*rng.pick(&["0.500000000000000001", "0.5000000001", "0.666666666666666666", "0.666666666666666667", "0.999999999999999999"])).to_string(),
                _ => dec(rng, 500, 1000, fine),
            };
            let q = match rng.below(8) {
                0 => "1".to_string(),
                1 => "0.001".to_string(),
                2 => "0".to_string(), // invalid
                _ => dec(rng, 1, 1000, fine),
            };
            json!({"threshold_quorum":{"threshold": t, "quorum": q}})
        }
    }
}

fn gen_duration(rng: &mut Rng, spb: u64) -> Value {
    if rng.chance(1, 2) {
        json!({"height": *rng.pick(&[1u64, 2, 3, 5, 10, 50])})
    } else {
        json!({"time": *rng.pick(&[1u64, 2, 5, 10, 60]) * spb.max(1)})
    }
}

impl World for WorldC {
    const NAME: &'static str = "C";

    fn gen_config(rng: &mut Rng, prop: &str, thorough: bool) -> Value {
        let nusers = rng.range(3, 7) as usize;
        let users: Vec<String> = (0..nusers).map(|i| format!("user{}", i)).collect();
        let spb = *rng.pick(&[0u64, 1, 5, 6, 1000]);
        let group_kind = match prop {
            "C10" => {
                if rng.chance(1, 2) {
                    "stake_native"
                } else {
                    "stake_cw20"
                }
            }
            "C15" | "C03" | "C05" => *rng.pick(&["group", "group", "group", "stake_native"]),
            _ => *rng.pick(&["group", "group", "stake_native", "stake_cw20"]),
        }
        .to_string();
        let bulk_members = if (prop == "C20" && rng.chance(1, 2)) || (matches!(prop, "C09" | "ALL") && rng.chance(1, 10)) {
            rng.range(28, 70) as usize
        } else {
            0
        };
        let bulk_props = if prop == "C20" && rng.chance(1, 2) { rng.range(9, 45) as usize } else { 0 };
        // "flex" = the DAO pattern: the multisig administers its own group (set up after both exist)
        let admin_name = if rng.chance(1, 10) { None } else { Some(rng.pick(&["user0", "user0", "user1", "sink0", "flex"]).to_string()) };
        let mut total_hint: u64 = 0;
        let mut initial_bonds: Vec<(String, String)> = vec![];
        let group_init = if group_kind == "group" {
            let n = rng.range(0, nusers as u64) as usize;
            let mut members = vec![];
            for u in users.iter().take(n) {
                let w = match rng.below(10) {
                    0 | 1 => 0u64,
                    2..=5 => 1,
                    6 => 2,
                    7 => 3,
                    8 => rng.range(4, 100),
                    _ => {
                        if matches!(prop, "C03" | "C09") {
                            1u64 << 61
                        } else {
                            7
                        }
                    }
                };
                total_hint = total_hint.saturating_add(w);
                members.push(json!({"addr": addr_of(u), "weight": w}));
            }
            if rng.chance(1, 40) && !members.is_empty() {
                let d = members[0].clone();
                members.push(d);
            }
            if rng.chance(1, 25) && members.len() >= 2 {
                // weights that are each a legal u64 and only overflow together: whatever instantiate accepts
                let big = *rng.pick(&[1u64 << 63, (1u64 << 63) + 1, u64::MAX]);
                for m in members.iter_mut().take(2) {
                    m["weight"] = json!(big);
                }
                total_hint = u64::MAX;
            }
            for i in 0..bulk_members {
                members.push(json!({"addr": addr_of(&format!("bulk{}", i)), "weight": 1 + (i as u64 % 3)}));
                total_hint = total_hint.saturating_add(1 + (i as u64 % 3));
            }
            json!({"admin": admin_name.as_ref().map(|a| a.to_string()), "members": members})
        } else {
            let tpw: u128 = match rng.below(10) {
                0 => 0,
                1..=3 => 1,
                4 => 3,
                5 | 6 => 1000,
                7 => 1u128 << 64,
                _ => rng.range(2, 50) as u128,
            };
            let min_bond: u128 = match rng.below(6) {
                0 => 0,
                1 => 1,
                2 => tpw.saturating_mul(2),
                3 => 5000,
                _ => rng.range(1, 100) as u128,
            };
            let period = gen_duration(rng, spb);
            // initial bonds so that a flex multisig can be instantiated on top
            for u in users.iter().take(rng.range(0, nusers as u64) as usize) {
                let a = tpw.max(1).saturating_mul(rng.range(1, 5) as u128).max(min_bond);
                total_hint = total_hint.saturating_add(rng.range(1, 5));
                initial_bonds.push((u.clone(), a.to_string()));
            }
            // C20: a member list long enough to need several pages — many small stakers (native staking only)
            if prop == "C20" && group_kind == "stake_native" && tpw <= 1000 {
                for i in 0..bulk_members {
                    let a = tpw.max(1).saturating_mul(1 + (i as u128 % 3)).max(min_bond);
                    initial_bonds.push((format!("bulk{}", i), a.to_string()));
                }
            }
            json!({
                "denom": if group_kind == "stake_native" { json!({"native": STAKE_DENOM}) } else { json!({"cw20": "TOKEN"}) },
                "tokens_per_weight": tpw.to_string(), "min_bond": min_bond.to_string(),
                "unbonding_period": period,
                "admin": admin_name.as_ref().map(|a| a.to_string()),
            })
        };
        let fine = rng.chance(1, 5);
        let want_msigs = !matches!(prop, "C09" | "C10" | "C14") || rng.chance(1, 3);
        let fixed = if want_msigs && (prop != "C15") {
            let n = rng.range(1, nusers as u64) as usize;
            let mut voters = vec![];
            let mut tot = 0u64;
            for u in users.iter().take(n) {
                let w = match rng.below(10) {
                    0 | 1 => 0u64,
                    2..=5 => 1,
                    6 => 2,
                    7 => 3,
                    8 => rng.range(4, 30),
                    _ => {
                        if prop == "C03" {
                            1u64 << 61
                        } else {
                            5
                        }
                    }
                };
                tot = tot.saturating_add(w);
                voters.push(json!({"addr": addr_of(u), "weight": w}));
            }
            if rng.chance(1, 14) && voters.len() >= 2 {
                // weights that are each a legal u64 and only overflow together: whatever instantiate accepts
                let big = *rng.pick(&[1u64 << 63, (1u64 << 63) - 1, u64::MAX / 2 + 2, u64::MAX]);
                for v in voters.iter_mut().take(2) {
                    v["weight"] = json!(big);
                }
                tot = u64::MAX;
            }
            if rng.chance(1, 12) && voters.len() >= 2 {
                // repeated address: whatever instantiate accepts
                let mut d = voters[0].clone();
                d["weight"] = json!(rng.range(0, 3));
                tot = tot.saturating_add(d["weight"].as_u64().unwrap());
                voters.push(d);
            }
            for i in 0..bulk_members.min(40) {
                // C20 needs ballots by the dozen: there the bulk voters carry weight
                let w = if prop == "C20" { 1u64 } else { 0 };
                tot = tot.saturating_add(w);
                voters.push(json!({"addr": addr_of(&format!("bulk{}", i)), "weight": w}));
            }
            Some(json!({"voters": voters, "threshold": gen_threshold(rng, tot, fine), "max_voting_period": gen_duration(rng, spb)}))
        } else {
            None
        };
        let flex = if want_msigs {
            let deposit = if prop == "C15" || rng.chance(1, 4) {
                let amt = *rng.pick(&[1u128, 10, 1000]);
                let denom = if rng.chance(1, 2) { json!({"native": DEP_DENOM}) } else { json!({"cw20": "TOKEN"}) };
                json!({"amount": amt.to_string(), "denom": denom, "refund_failed_proposals": rng.chance(1, 2)})
            } else {
                Value::Null
            };
            let executor = match rng.below(4) {
                0 => json!("member"),
                1 => { let u = rng.pick(&users).clone(); json!({"only": addr_of(&u)}) },
                _ => Value::Null,
            };
            Some(json!({
                "threshold": gen_threshold(rng, total_hint, fine),
                "max_voting_period": gen_duration(rng, spb),
                "executor": executor,
                "proposal_deposit": deposit,
            }))
        } else {
            None
        };
        let mut hooks = vec![];
        if rng.chance(1, 2) {
            hooks.push("sink0".to_string());
        }
        if rng.chance(1, 4) {
            hooks.push("sink1".to_string());
        }
        if flex.is_some() && rng.chance(1, 2) {
            hooks.push("flex".to_string());
        }
        let cfg = CCfg {
            users,
            group_kind,
            group_init,
            group_admin: admin_name,
            fixed,
            flex,
            hooks,
            spb,
            steps: if thorough { rng.range(30, 140) as usize } else { rng.range(20, 80) as usize },
            faults: rng.chance(1, 2),
            profile: prop.to_string(),
            bulk_members,
            bulk_props,
            donations: rng.chance(1, 3),
            same_block_edits: prop == "C06" && rng.chance(1, 3) || prop == "ALL" && rng.chance(1, 6) || prop == "C09" || prop == "C14",
            initial_bonds,
        };
        serde_json::to_value(cfg).unwrap()
    }

    fn build(config: &Value, prop: &str) -> Self {
        let cfg: CCfg = serde_json::from_value(config.clone()).expect("config");
        let mut chain = Chain::new();
        let users: Vec<String> = cfg.users.iter().map(|u| addr_of(u)).collect();
        let wadmin = addr_of("wasm-admin");
        let mut sinks = vec![];
        for i in 0..2 {
            sinks.push(
                chain
                    .instantiate(Kind::Sink, &format!("sink{}", i), &wadmin, &json!({}), vec![], None)
                    .expect("sink"),
            );
        }
        let mut universe = users.clone();
        universe.extend(sinks.iter().cloned());
        // funds
        for (i, u) in users.iter().enumerate() {
            let big = if i < 2 { (1u128 << 100) + 12345 } else { 1_000_000_000 };
            chain.mint(
                u,
                vec![
                    Coin::new(big, STAKE_DENOM),
                    Coin::new(1_000_000u128, DEP_DENOM),
                    Coin::new(1_000_000u128, PAY_DENOM),
                    Coin::new(1_000_000_000u128, STAKE_DENOM.to_uppercase()),
                ],
            );
        }
        // cw20 tokens
        let bal: Vec<Value> = users
            .iter()
            .enumerate()
            .map(|(i, u)| json!({"address": u, "amount": if i < 2 { ((1u128 << 100) + 777).to_string() } else { "1000000000".to_string() }}))
            .collect();
        let tok_init = json!({"name":"Gov Token","symbol":"GOV","decimals":6,"initial_balances": bal,"mint":null,"marketing":null});
        let token = chain
            .instantiate(Kind::Cw20, "token", &wadmin, &tok_init, vec![], None)
            .unwrap_or_default();
        let _ = chain.instantiate(Kind::Cw20, "token2", &wadmin, &tok_init, vec![], None);
        let resolve = |name: &str, chain: &Chain| -> String {
            if name.starts_with("sink") || name == "flex" || name == "fixed" {
                chain.addr(name)
            } else {
                addr_of(name)
            }
        };
        // group
        let is_stake = cfg.group_kind != "group";
        let stake_cw20 = cfg.group_kind == "stake_cw20";
        let mut ginit = cfg.group_init.clone();
        if let Some(a) = ginit.get("admin").and_then(|a| a.as_str()).map(|s| s.to_string()) {
            // the multisig does not exist yet: user0 administers first and hands over below
            let a = if a == "flex" { "user0".to_string() } else { a };
            ginit["admin"] = json!(resolve(&a, &chain));
        }
        if stake_cw20 {
            ginit["denom"] = json!({"cw20": token});
        }
        let gkind = if is_stake { Kind::Stake } else { Kind::Group };
        // snapper must exist before instantiation so that instantiate frames carry snapshots too
        {
            let u2 = universe.clone();
            chain.set_snapper(Box::new(move |kind, _addr, inner, deps, env: &Env| match kind {
                Kind::Group => snap_cw4(inner, deps, env, &u2, false),
                Kind::Stake => snap_cw4(inner, deps, env, &u2, true),
                Kind::Fixed | Kind::Flex => snap_cw3(inner, deps, env),
                _ => Snap::None,
            }));
        }
        let group_height0 = chain.block().height;
        let gres = chain.instantiate(gkind, "group", &wadmin, &ginit, vec![], None);
        let (group, group_ok) = match gres {
            Ok(a) => (a, true),
            Err(_) => (String::new(), false),
        };
        let stake_cfg = if is_stake {
            let tpw = ginit["tokens_per_weight"].as_str().and_then(|s| s.parse::<u128>().ok()).unwrap_or(1);
            let mb = ginit["min_bond"].as_str().and_then(|s| s.parse::<u128>().ok()).unwrap_or(0).max(1);
            let per: cw_utils::Duration = serde_json::from_value(ginit["unbonding_period"].clone()).unwrap_or(cw_utils::Duration::Height(1));
            Some((tpw, mb, per))
        } else {
            None
        };
        let bulk_addrs: Vec<String> = (0..cfg.bulk_members).map(|i| addr_of(&format!("bulk{}", i))).collect();
        let mut w = WorldC {
            cfg: cfg.clone(),
            prop: prop.to_string(),
            chain,
            meter: Meter::default(),
            users,
            sinks,
            universe,
            token,
            group,
            group_ok,
            is_stake,
            stake_cw20,
            group_height0,
            cur_members: Members::new(),
            block_start_members: Members::new(),
            history: vec![],
            msigs: vec![],
            step_idx: 0,
            pending: vec![],
            unbonds: BTreeMap::new(),
            donated: 0,
            stake_cfg,
            deadlines_h: vec![],
            deadlines_t: vec![],
            admin_gone: false,
            last_group_obs: None,
            last_full_obs: None,
            bulk_addrs,
            expect_ballots: vec![],
            queue: Default::default(),
            races_done: 0,
            member_races_done: 0,
        };
        if !w.group_ok {
            w.meter.hit("group_instantiate_rejected");
            return w;
        }
        w.meter.flag("group_instantiated");
        let mut pend = vec![];
        // initial bonds (stake) — go through the normal monitored path
        if is_stake {
            for (u, a) in cfg.initial_bonds.clone() {
                let ua = addr_of(&u);
                if u.starts_with("bulk") {
                    w.chain.mint(&ua, vec![Coin::new(a.parse::<u128>().unwrap_or(0), STAKE_DENOM)]);
                }
                let step = if stake_cw20 {
                    Step::Tx {
                        sender: ua,
                        target: "token".into(),
                        msg: json!({"send":{"contract": w.group, "amount": a, "msg": Binary::from(br#"{"bond":{}}"#.to_vec()).to_base64()}}),
                        funds: vec![],
                        fault: None,
                        script: vec![],
                    }
                } else {
                    Step::Tx { sender: ua, target: "group".into(), msg: json!({"bond":{}}), funds: vec![(STAKE_DENOM.to_string(), a)], fault: None, script: vec![] }
                };
                w.apply_inner(&step, &mut pend);
            }
        } else {
            w.observe_group(false, &mut pend);
        }
        // multisigs
        if let Some(fi) = &cfg.fixed {
            if let Ok(a) = w.chain.instantiate(Kind::Fixed, "fixed", &wadmin, fi, vec![], None) {
                let mut ms = MsigState { label: "fixed".into(), addr: a.clone(), flex: false, init: fi.clone(), ..Default::default() };
                ms.max_voting_period = serde_json::from_value(fi["max_voting_period"].clone()).ok();
                w.chain.mint(&a, vec![Coin::new(1_000_000_000_000u128, PAY_DENOM)]);
                w.msigs.push(ms);
                w.meter.flag("fixed_instantiated");
            } else {
                w.meter.hit("fixed_instantiate_rejected");
            }
        }
        if let Some(fl) = &cfg.flex {
            let mut fl = fl.clone();
            fl["group_addr"] = json!(w.group);
            if fl["proposal_deposit"]["denom"].get("cw20").is_some() {
                fl["proposal_deposit"]["denom"] = json!({"cw20": w.token});
            }
            if let Ok(a) = w.chain.instantiate(Kind::Flex, "flex", &wadmin, &fl, vec![], None) {
                let mut ms = MsigState { label: "flex".into(), addr: a.clone(), flex: true, init: fl.clone(), ..Default::default() };
                ms.max_voting_period = serde_json::from_value(fl["max_voting_period"].clone()).ok();
                ms.executor = if fl["executor"].is_null() { None } else { Some(fl["executor"].clone()) };
                ms.deposit = w
                    .chain
                    .query::<Value>("flex", &json!({"config":{}}))
                    .ok()
                    .and_then(|c| serde_json::from_value(c["proposal_deposit"].clone()).ok());
                w.chain.mint(&a, vec![Coin::new(1_000_000_000_000u128, PAY_DENOM)]);
                // cw20 deposits are pulled: proposers pre-approve in most runs
                if let Some(d) = &ms.deposit {
                    if let cw20::Denom::Cw20(_) = d.denom {
                        for (i, u) in w.users.clone().iter().enumerate() {
                            let amt = match i % 4 {
                                0 => d.amount.u128() * 100,
                                1 => d.amount.u128(),
                                2 => d.amount.u128().saturating_sub(1),
                                _ => 0,
                            };
                            if amt > 0 {
                                w.chain.exec(u, "token", &json!({"increase_allowance":{"spender": a, "amount": amt.to_string(), "expires": null}}), vec![], None, &[]);
                            }
                        }
                    }
                }
                w.msigs.push(ms);
                w.meter.flag("flex_instantiated");
            } else {
                w.meter.hit("flex_instantiate_rejected");
            }
        }
        // hooks (the admin adds them)
        if let Some(adm) = w.last_group_obs.as_ref().and_then(|o| o.admin.clone()) {
            for h in cfg.hooks.clone() {
                let ha = w.chain.addr(&h);
                if ha == h {
                    continue; // label not instantiated
                }
                let msg = json!({"add_hook":{"addr": ha}});
                let step = if let Some(l) = w.chain.label_of(&adm).map(|s| s.to_string()) {
                    Step::Tx { sender: w.users[0].clone(), target: l.clone(), msg: json!({}), funds: vec![], fault: None, script: vec![(l, SinkAct::Call(vec![wasm_exec(&w.group, &msg, vec![])]))] }
                } else {
                    Step::Tx { sender: adm.clone(), target: "group".into(), msg, funds: vec![], fault: None, script: vec![] }
                };
                w.apply_inner(&step, &mut pend);
            }
        }
        if cfg.group_admin.as_deref() == Some("flex") {
            if let Some(fa) = w.msigs.iter().find(|m| m.flex).map(|m| m.addr.clone()) {
                let step = Step::Tx { sender: w.users[0].clone(), target: "group".into(), msg: json!({"update_admin":{"admin": fa}}), funds: vec![], fault: None, script: vec![] };
                w.apply_inner(&step, &mut pend);
                w.meter.hit("group_administered_by_its_own_multisig");
            }
        }
        w.init_msigs(&mut pend);
        // bulk proposals for C20
        if cfg.bulk_props > 0 {
            for mi in 0..w.msigs.len() {
                let m = w.msigs[mi].clone();
                let proposer = if m.flex { w.cur_members.keys().next().cloned() } else { m.voters0.keys().next().cloned() };
                if let (Some(p), None) = (proposer, &m.deposit) {
                    for i in 0..cfg.bulk_props {
                        let step = Step::Tx {
                            sender: p.clone(),
                            target: m.label.clone(),
                            msg: json!({"propose":{"title": format!("bulk{}", i), "description":"b", "msgs": [], "latest": null}}),
                            funds: vec![],
                            fault: None,
                            script: vec![],
                        };
                        w.apply_inner(&step, &mut pend);
                    }
                    w.meter.hit("bulk_proposals");
                }
            }
        }
        // setup is over: the simulated history starts in a fresh block
        w.apply_inner(&Step::Block { dh: 1, dt: cfg.spb, dn: 0 }, &mut pend);
        // C20: a proposal with ballots by the dozen (vote listings need pages too) — scheduled as the first steps
        if cfg.profile == "C20" && cfg.bulk_members > 0 {
            for mi in 0..w.msigs.len() {
                let m = w.msigs[mi].clone();
                let proposer = if m.flex { w.cur_members.keys().find(|k| w.users.contains(*k)).cloned() } else { m.voters0.keys().find(|k| w.users.contains(*k)).cloned() };
                let proposer = match proposer {
                    Some(p) => p,
                    None => continue,
                };
                let mut funds: Vec<(String, String)> = vec![];
                if let Some(d) = &m.deposit {
                    if let cw20::Denom::Native(dn) = &d.denom {
                        funds = vec![(dn.clone(), d.amount.u128().to_string())];
                    }
                }
                let id = m.max_id + 1;
                w.queue.push_back(Step::Tx {
                    sender: proposer,
                    target: m.label.clone(),
                    msg: json!({"propose":{"title": "mass", "description":"m", "msgs": [], "latest": null}}),
                    funds,
                    fault: None,
                    script: vec![],
                });
                for (i, b) in w.bulk_addrs.clone().iter().take(36).enumerate() {
                    let choice = ["abstain", "no", "yes", "veto"][i % 4];
                    w.queue.push_back(Step::Tx {
                        sender: b.clone(),
                        target: m.label.clone(),
                        msg: json!({"vote":{"proposal_id": id, "vote": choice}}),
                        funds: vec![],
                        fault: None,
                        script: vec![],
                    });
                }
            }
            w.meter.hit("mass_vote_scheduled");
        }
        w.pending = pend;
        w
    }

    fn planned_steps(&self) -> usize {
        if self.group_ok {
            self.cfg.steps
        } else {
            1
        }
    }

    fn gen_step(&mut self, rng: &mut Rng) -> Step {
        if !self.group_ok {
            return Step::Block { dh: 1, dt: self.cfg.spb, dn: 0 };
        }
        if let Some(s) = self.queue.pop_front() {
            return s;
        }
        if rng.chance(1, 10) {
            if let Some(s) = self.gen_boundary_sequence(rng) {
                return s;
            }
        }
        if rng.chance(1, 16) {
            if let Some(s) = self.gen_reweight_race(rng) {
                return s;
            }
        }
        if rng.chance(1, 12) {
            if let Some(s) = self.gen_membership_race(rng) {
                return s;
            }
        }
        // weights: group/stake ops, multisig ops, clock
        let (wg, wm, wb) = match self.cfg.profile.as_str() {
            "C09" | "C14" => (60, 15, 25),
            "C10" => (70, 5, 25),
            "C06" => (30, 50, 20),
            "C03" | "C05" | "C15" => (10, 70, 20),
            _ => (35, 45, 20),
        };
        let wm = if self.msigs.is_empty() { 0 } else { wm };
        let k = rng.weighted(&[wg, wm, wb]);
        match k {
            0 => {
                if self.is_stake && rng.chance(4, 5) {
                    self.gen_stake_step(rng)
                } else {
                    self.gen_group_step(rng)
                }
            }
            1 => self.gen_msig_step(rng),
            _ => {
                if self.cfg.same_block_edits || rng.chance(3, 4) {
                    self.gen_block(rng)
                } else {
                    // most runs separate every transaction by a block, like the existing tests do
                    Step::Block { dh: 1, dt: self.cfg.spb, dn: 0 }
                }
            }
        }
    }

    fn apply(&mut self, step: &Step, out: &mut Vec<Violation>) {
        if !self.pending.is_empty() {
            let p = std::mem::take(&mut self.pending);
            out.extend(p);
        }
        self.apply_inner(step, out);
        if self.on("C20") {
            let every = if self.cfg.profile == "C20" { 8 } else { 30 };
            if self.step_idx % every == every - 1 || matches!(step, Step::Quiesce) {
                self.probe_c20(self.cfg.profile == "C20", out);
            }
        }
        self.step_idx += 1;
    }

    fn chain(&self) -> &Chain {
        &self.chain
    }

    fn meter(&self) -> &Meter {
        &self.meter
    }

    fn nontrivial(&self, prop: &str) -> bool {
        let f = &self.meter.nontrivial_flags;
        if !f.contains("group_instantiated") {
            return false;
        }
        match prop {
            "C03" => f.contains("vote_ok") && (f.contains("status_passed") || f.contains("status_rejected")),
            "C05" => f.contains("execute_ok") && f.contains("execute_refused"),
            "C06" => f.contains("vote_ok") && f.contains("group_changed"),
            "C09" => f.contains("group_changed") && f.contains("height_probe"),
            "C10" => f.contains("bond_ok") && f.contains("unbond_ok") && f.contains("claim_ok"),
            "C14" => f.contains("group_changed") && f.contains("hook_notified"),
            "C15" => f.contains("deposit_taken") && f.contains("deposit_refunded"),
            "C20" => f.contains("c20_probed"),
            _ => f.len() > 3,
        }
    }
}

impl WorldC {
    pub(crate) fn apply_inner(&mut self, step: &Step, out: &mut Vec<Violation>) {
        match step {
            Step::Tx { sender, target, msg, funds, fault, script } => {
                if self.chain.contracts.contains_key(target) {
                    let members_before = self.cur_members.clone();
                    let r = self.chain.exec(sender, target, msg, coins(funds), fault.clone(), script);
                    let evs = self.chain.events(&r);
                    if !r.ok {
                        self.meter.flag("tx_failed");
                        self.meter.token("tx", self.role(sender), "failed", 0);
                    }
                    self.after_tx(&evs, &r, &members_before, out);
                }
            }
            Step::Bank { from, to, coins: cs } => {
                let to_addr = self.chain.addr(to);
                let members_before = self.cur_members.clone();
                let amount = coins(cs);
                let r = self.chain.tx(
                    from,
                    CosmosMsg::Bank(cosmwasm_std::BankMsg::Send { to_address: to_addr, amount }),
                    None,
                    &[],
                );
                let evs = self.chain.events(&r);
                self.after_tx(&evs, &r, &members_before, out);
            }
            Step::Block { dh, dt, dn } => {
                self.chain.advance_ns(*dh, *dt, *dn);
                self.meter.sim_blocks += dh;
                self.meter.sim_seconds += dt;
                if *dh > 0 {
                    let h = self.chain.block().height;
                    // from the start of block (old height + 1) on, the membership at block start is the current one
                    self.history.push((h - dh + 1, self.cur_members.clone()));
                    self.block_start_members = self.cur_members.clone();
                }
                // statuses depend on the clock
                self.observe_msigs(None, out);
                if self.on("C09") {
                    self.probe_heights(out);
                }
            }
            Step::Quiesce => {
                self.quiesce(out);
            }
            _ => {}
        }
    }
}
