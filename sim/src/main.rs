#![allow(dead_code, unused_imports, unused_variables)]
//! cwsim — deterministic chain simulation with fault injection for CosmWasm/cw-plus.
//!
//!   cwsim check <Cxx> <quick|thorough> [--mon ALL] [--runs N] [--threads N] [--dir /verif]
//!   cwsim replay <file> [--mon X]
//!   cwsim hashes <Cxx> <n> [--threads N]        (determinism self-check helper)
mod chain;
mod contracts;
mod paging;
mod rawkeys;
mod runner;
mod snaps;
mod trace;
mod util;
mod world;
mod world_a;
mod world_b;
mod c_gov;
mod c_group;
mod world_c;
mod world_d;

use std::collections::BTreeMap;
use std::time::Instant;

use runner::*;
use serde_json::json;
use trace::ReplayFile;

const DEFAULT_SEED: u64 = 20261002;

fn arg_val(args: &[String], key: &str) -> Option<String> {
    args.iter().position(|a| a == key).and_then(|i| args.get(i + 1).cloned())
}

fn quick_runs(prop: &str) -> u64 {
    // sized so that a quick check takes 10-20 s on 16 idle cores
    match prop {
        "C20" => 2400,
        "C01" | "C02" | "C13" | "C19" => 3000,
        "C07" | "C08" | "C16" | "C17" => 8000,
        "C11" | "C12" | "C18" => 6000,
        _ => 5000,
    }
}

fn thorough_runs(prop: &str) -> u64 {
    match prop {
        "C20" => 16000,
        "C07" | "C08" | "C16" | "C17" => 80000,
        _ => 40000,
    }
}

fn level_of(prop: &str) -> &'static str {
    match prop {
        "C05" | "C11" | "C12" => "fault_enumeration",
        _ => "exploration",
    }
}

fn rule_of(prop: &str) -> String {
    let nt = match prop {
        "C01" => "token instantiated, at least one committed mint or burn and at least one failed (rolled back) transaction",
        "C02" => "at least one committed allowance draw, one allowance change and one failed transaction",
        "C13" => "at least one committed Mint or UpdateMinter",
        "C19" => "at least one allowance change and one committed draw",
        "C20" => "at least one full pagination probe executed on a populated listing",
        _ => "world-specific (see DESIGN.md section 8)",
    };
    format!(
        "each evaluation is one seeded simulated run (configuration + actor programs + scheduler + faults all from one PRNG). \
         A run is non-trivial if: {}. distinct = number of distinct abstract trace signatures (sequence of (message kind, actor role, \
         commit outcome, amount bucket)) among non-trivial runs",
        nt
    )
}

fn main() {
    // never let backtraces into error text
    std::env::set_var("RUST_BACKTRACE", "0");
    std::env::set_var("RUST_LIB_BACKTRACE", "0");
    if std::env::var("CWSIM_DEBUG").is_ok() {
        std::panic::set_hook(Box::new(|i| eprintln!("panic: {}", i)));
    } else {
        std::panic::set_hook(Box::new(|_| {}));
    }
    let args: Vec<String> = std::env::args().collect();
    if args.len() < 2 {
        eprintln!("usage: cwsim check|replay|hashes ...");
        std::process::exit(2);
    }
    // a panic outside any simulated contract frame is a defect of the harness, never a verdict: exit 2
    // everything runs on a thread with a deep stack: nested sub-message dispatch in cw-multi-test is recursive
    let code = std::thread::Builder::new()
        .stack_size(1 << 30)
        .spawn(move || match args[1].as_str() {
            "check" => cmd_check(&args),
            "replay" => cmd_replay(&args),
            "hashes" => cmd_hashes(&args),
            _ => {
                eprintln!("unknown command");
                2
            }
        })
        .expect("spawn")
        .join()
        .or_else(|_| -> Result<i32, ()> {
            eprintln!("harness error: the simulator itself panicked (re-run with CWSIM_DEBUG=1 for the location)");
            Ok(2)
        })
        .unwrap_or(2);
    std::process::exit(code);
}

fn cmd_hashes(args: &[String]) -> i32 {
    let prop = args[2].clone();
    let n: u64 = args[3].parse().unwrap();
    let threads = arg_val(args, "--threads").and_then(|s| s.parse().ok()).unwrap_or(16);
    let seed = std::env::var("VERIF_SEED").ok().and_then(|s| s.parse().ok()).unwrap_or(DEFAULT_SEED);
    let cfg = BatchCfg {
        prop: prop.clone(),
        mon: arg_val(args, "--mon").unwrap_or(prop),
        tier: "quick".into(),
        seed,
        runs: n,
        threads,
        verif_dir: ".".into(),
    };
    // same run semantics as `check`: listed findings are walked past
    let ff = load_findings(&format!("{}/known_findings.json", arg_val(args, "--dir").unwrap_or("/verif".into())));
    let _ = runner::TOLERATE.set(
        ff.known
            .iter()
            .map(|k| trace::Tolerated { property: k.property.clone(), class: k.class.clone(), facts: k.facts.clone() })
            .collect(),
    );
    for s in run_batch(&cfg, usize::MAX).0 {
        println!("{} {} {} {}", s.world, s.run, hex(s.out.loghash), s.out.violations.len());
    }
    0
}

fn cmd_replay(args: &[String]) -> i32 {
    let path = &args[2];
    let text = match std::fs::read_to_string(path) {
        Ok(t) => t,
        Err(e) => {
            eprintln!("cannot read {}: {}", path, e);
            return 2;
        }
    };
    let rf: ReplayFile = match serde_json::from_str(&text) {
        Ok(r) => r,
        Err(e) => {
            eprintln!("cannot parse {}: {}", path, e);
            return 2;
        }
    };
    let mon = arg_val(args, "--mon").unwrap_or(rf.trace.property.clone());
    let out = replay_in(&rf.trace, &mon);
    if out.violations.is_empty() {
        println!("REPLAY no-violation loghash={}", hex(out.loghash));
        return 0;
    }
    for v in &out.violations {
        println!("REPLAY class={} loghash={}", v.class, hex(out.loghash));
        println!("  step {}: {}", v.step, v.detail);
    }
    // the violation the file was written for, if it is among them; else the first one
    let v = out
        .violations
        .iter()
        .find(|v| v.class == rf.violation.class)
        .unwrap_or(&out.violations[0]);
    println!("VIOLATION property={} replay={}", v.property, path);
    1
}

fn cmd_check(args: &[String]) -> i32 {
    let prop = args[2].clone();
    let tier = args.get(3).cloned().unwrap_or("quick".into());
    let dir = arg_val(args, "--dir").unwrap_or("/verif".into());
    let mon = arg_val(args, "--mon").unwrap_or(prop.clone());
    let seed = std::env::var("VERIF_SEED").ok().and_then(|s| s.parse().ok()).unwrap_or(DEFAULT_SEED);
    let runs = arg_val(args, "--runs")
        .and_then(|s| s.parse().ok())
        .unwrap_or(if tier == "thorough" { thorough_runs(&prop) } else { quick_runs(&prop) });
    let threads = arg_val(args, "--threads").and_then(|s| s.parse().ok()).unwrap_or(16);
    if world_of(&prop).is_empty() {
        eprintln!("property {} has no simulation check (not applicable or unknown)", prop);
        return 2;
    }
    let cfg = BatchCfg {
        prop: prop.clone(),
        mon: mon.clone(),
        tier: tier.clone(),
        seed,
        runs,
        threads,
        verif_dir: dir.clone(),
    };
    println!("cwsim check property={} tier={} seed={} runs={} monitors={}", prop, tier, seed, runs, mon);
    let t0 = Instant::now();
    let ff = load_findings(&format!("{}/known_findings.json", dir));
    let _ = runner::TOLERATE.set(
        ff.known
            .iter()
            .map(|k| trace::Tolerated { property: k.property.clone(), class: k.class.clone(), facts: k.facts.clone() })
            .collect(),
    );
    let (sums, agg) = run_batch(&cfg, 600);

    // determinism self-check: re-execute the first runs and compare event-log hashes
    let mut determinism = "ok".to_string();
    {
        let n = sums.len().min(48);
        for s in sums.iter().take(n) {
            let again = gen_in(&s.world, &prop, &mon, seed, s.run, tier == "thorough");
            if again.loghash != s.out.loghash {
                determinism = format!("MISMATCH world {} run {}", s.world, s.run);
                break;
            }
        }
        if determinism != "ok" {
            eprintln!("harness error: non-deterministic execution ({})", determinism);
            return 2;
        }
        determinism = format!("ok ({} runs re-executed, identical event-log hashes)", n);
    }

    // systematic single-fault sweep over sampled traces (crash-point enumeration at sub-call boundaries)
    let fault_props = matches!(prop.as_str(), "C05" | "C11" | "C12");
    let (k_traces, per_trace) = match (tier.as_str(), fault_props) {
        ("thorough", true) => (400usize, 120usize),
        ("thorough", false) => (80, 60),
        (_, true) => (24, 40),
        _ => (0, 0),
    };
    let mut sweep_stats = SweepStats { traces: 0, sites: 0, reexecutions: 0 };
    let mut extra: Vec<RunSummary> = vec![];
    if k_traces > 0 && arg_val(args, "--no-sweep").is_none() {
        let picked: Vec<trace::Trace> = sums
            .iter()
            .filter(|s| s.out.violations.is_empty() && s.out.nontrivial)
            .take(k_traces)
            .map(|s| s.out.trace.clone())
            .collect();
        let (outs, st) = sweep(&picked, &mon, threads, per_trace);
        sweep_stats = st;
        for o in outs {
            extra.push(RunSummary { world: o.trace.world.clone(), run: o.trace.run, out: o });
        }
    }
    let mut known_seen: BTreeMap<String, u64> = BTreeMap::new();
    let mut known_what: BTreeMap<String, String> = BTreeMap::new();
    let mut known_first: BTreeMap<String, (usize, trace::Violation)> = BTreeMap::new();
    // first unknown violation per class
    let mut unknown: BTreeMap<String, (usize, trace::Violation)> = BTreeMap::new();
    let mut unknown_total = 0usize;
    let all: Vec<&RunSummary> = sums.iter().chain(extra.iter()).collect();
    for (i, s) in all.iter().enumerate() {
        for v in &s.out.violations {
            if mon != "ALL" && v.property != prop {
                continue;
            }
            match match_known(&ff, v) {
                Some(k) => {
                    let key = format!("{} {}", k.class, k.facts);
                    *known_seen.entry(key.clone()).or_insert(0) += 1;
                    known_first.entry(key.clone()).or_insert((i, v.clone()));
                    known_what.insert(key, format!("property={} {}", k.property, k.what));
                }
                None => {
                    unknown_total += 1;
                    unknown.entry(v.class.clone()).or_insert((i, v.clone()));
                }
            }
        }
    }
    for (k, what) in &known_what {
        println!("KNOWN-FINDING: {} [seen in {} runs]", what, known_seen[k]);
    }
    if arg_val(args, "--dump-known").is_some() {
        // documentation aid: a minimised replay file for every listed finding that was seen
        let kdir = format!("{}/replays/known", dir);
        let _ = std::fs::create_dir_all(&kdir);
        for (key, (i, v)) in &known_first {
            let s = all[*i];
            let (mt, mv) = minimise(&s.out.trace, v, &mon, &ff, 300);
            let mo = replay_in(&mt, &mon);
            let rf = ReplayFile { trace: mt, violation: mv, loghash: hex(mo.loghash), minimised_from_steps: s.out.trace.steps.len() };
            let name: String = key.chars().map(|c| if c.is_ascii_alphanumeric() { c } else { '_' }).take(90).collect();
            let path = format!("{}/{}.json", kdir, name);
            std::fs::write(&path, serde_json::to_vec_pretty(&rf).unwrap()).expect("write known replay");
            println!("known-finding replay written: {}", path);
        }
    }
    let mut exit = 0;
    let mut idx = 0;
    for (class, (i, v)) in &unknown {
        let s = all[*i];
        let (mt, mv) = minimise(&s.out.trace, v, &mon, &ff, 400);
        let mo = replay_in(&mt, &mon);
        let rf = ReplayFile {
            trace: mt.clone(),
            violation: mv.clone(),
            loghash: hex(mo.loghash),
            minimised_from_steps: s.out.trace.steps.len(),
        };
        let path = write_replay(&format!("{}/replays", dir), &prop, seed, s.run, idx, &rf);
        idx += 1;
        match verify_fresh(&path, &mon, &rf) {
            Ok(true) => {
                println!(
                    "violation class={} world={} run={} steps {} -> {} : {}",
                    class,
                    s.world,
                    s.run,
                    s.out.trace.steps.len(),
                    mt.steps.len(),
                    mv.detail
                );
                println!("VIOLATION property={} replay={}", mv.property, path);
                exit = 1;
            }
            Ok(false) => {
                eprintln!("harness error: replay {} does not reproduce in a fresh process", path);
                return 2;
            }
            Err(e) => {
                eprintln!("harness error: cannot run replay: {}", e);
                return 2;
            }
        }
    }
    let wall = t0.elapsed().as_secs_f64();
    let ev = evidence_json(
        &cfg,
        level_of(&prop),
        &rule_of(&prop),
        &sums,
        &agg,
        unknown_total,
        &known_seen,
        wall,
        &determinism,
        json!({
            "monitors": mon,
            "violation_classes": unknown.keys().collect::<Vec<_>>(),
            "single_fault_sweep": {
                "traces": sweep_stats.traces,
                "dispatch_sites_enumerated": sweep_stats.sites,
                "reexecutions_with_one_injected_fault": sweep_stats.reexecutions,
                "faults_fired_in_sweep": extra.iter().map(|e| e.out.stats.get("fault_early_fired").cloned().unwrap_or(0) + e.out.stats.get("fault_late_fired").cloned().unwrap_or(0)).sum::<u64>(),
            }
        }),
    );
    if mon == prop {
        let _ = std::fs::create_dir_all(format!("{}/evidence", dir));
        std::fs::write(
            format!("{}/evidence/{}.json", dir, prop),
            serde_json::to_vec_pretty(&ev).unwrap(),
        )
        .expect("write evidence");
    }
    let cov = &ev["coverage"];
    println!(
        "runs={} nontrivial={} distinct_signatures={} states={} txs={} committed_ratio={:.2} wall={:.1}s",
        agg.runs,
        cov["nontrivial_runs"],
        cov["distinct_nontrivial"],
        cov["states"],
        cov["transactions"],
        cov["committed_ratio"].as_f64().unwrap_or(0.0),
        wall
    );
    if exit == 0 {
        println!("OK property={} held on everything explored", prop);
    }
    exit
}
