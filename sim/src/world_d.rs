//! World D — IBC: cw20-ics20 with real cw20 tokens and bank, a simulated IBC core / relayer / remote chain
//! (honest or malicious). Monitors C11, C12, C18 and the ListAllowed part of C20.
use std::collections::BTreeMap;

use cosmwasm_std::{BankMsg, Binary, Coin, CosmosMsg, Env, IbcMsg, IbcTimeout, ReplyOn, Timestamp, WasmMsg};
use serde::{Deserialize, Serialize};
use serde_json::{json, Value};

use crate::chain::{Chain, Entry, Event, Fault, FaultMode, Frame, Kind, ModMsg, SinkAct, TxResult};
use crate::contracts::{IbcSudo, PacketDesc};
use crate::paging::{check_paging, LIMITS};
use crate::rawkeys;
use crate::snaps::{snap_ics, IcsSnap, Snap};
use crate::trace::{coins, Step, Violation};
use crate::util::{addr_of, amount_near, Fnv, Rng};
use crate::world::{bucket, Meter, World};

const NATIVES: [&str; 2] = ["uatom", "ustar"];
const OUR_PORT: &str = "wasm.ics20";
const THEIR_PORT: &str = "transfer";

#[derive(Serialize, Deserialize, Clone, Debug)]
pub struct DCfg {
    pub users: Vec<String>,
    pub channels: usize,
    pub tokens: usize,
    pub init: Value,
    pub malicious: bool,
    pub spb: u64,
    pub steps: usize,
    pub faults: bool,
    pub migrations: bool,
    pub bulk_allow: usize,
    pub profile: String,
    #[serde(default)]
    pub cp_mode: u8,
}

#[derive(Clone, Debug, PartialEq)]
enum PStatus {
    InFlight,
    AckedOk,
    Failed,
}

#[derive(Clone, Debug)]
struct SentPacket {
    desc: PacketDesc,
    channel: String,
    denom: String,
    amount: u128,
    sender: String,
    status: PStatus,
    /// the token was allowed (listed, or covered by a default) when the contract accepted the send
    payable_at_send: bool,
    sent_step: usize,
}

#[derive(Clone, Debug, Default, PartialEq)]
struct Ledger {
    sent: u128,
    failed: u128,
    redeemed: u128,
    paid_out: u128,
}

#[derive(Clone, Debug, PartialEq)]
struct ObsD {
    snap: IcsSnap,
    /// (who, token) -> balance; who includes the contract
    bal: BTreeMap<(String, String), u128>,
}

pub struct WorldD {
    cfg: DCfg,
    prop: String,
    pub chain: Chain,
    pub meter: Meter,
    users: Vec<String>,
    ics: String,
    ics_ok: bool,
    tokens: Vec<String>,
    /// native (bank) denoms that merely contain a listed token's `cw20:<addr>` — legal denoms like any other
    lookalikes: Vec<String>,
    fake_token: String,
    channels: Vec<(String, String)>,
    packets: Vec<SentPacket>,
    next_seq: BTreeMap<String, u64>,
    ledger: BTreeMap<(String, String), Ledger>,
    remote_vouchers: BTreeMap<(String, String), u128>,
    obs: Option<ObsD>,
    step_idx: usize,
    pending: Vec<Violation>,
    prev_allowed: Option<Vec<(String, Option<u64>)>>,
    prev_default_gas: Option<Option<u64>>,
    v1_migrated_without_default: bool,
    in_seq: u64,
    rebooked: std::collections::BTreeSet<(String, String)>,
    /// governance address named at instantiation
    cfg_gov: String,
    /// step of the latest "deployed with a pre-allow-list version" rewrite
    last_old_layout_step: Option<usize>,
}

fn ack_ok() -> Binary {
    Binary::from(br#"{"result":"MQ=="}"#.to_vec())
}
fn ack_err() -> Binary {
    Binary::from(br#"{"error":"remote refused"}"#.to_vec())
}

fn ack_is_success(b: &Binary) -> Option<bool> {
    let v: Value = serde_json::from_slice(b.as_slice()).ok()?;
    if v.get("result").is_some() {
        Some(true)
    } else if v.get("error").is_some() {
        Some(false)
    } else {
        None
    }
}

impl WorldD {
    fn on(&self, p: &str) -> bool {
        self.prop == "ALL" || self.prop == p
    }

    fn viol(&self, out: &mut Vec<Violation>, prop: &str, class: &str, facts: Value, detail: String) {
        if self.on(prop) {
            let mut v = Violation::new(prop, &format!("{}/{}", prop, class), facts, detail);
            v.step = self.step_idx;
            out.push(v);
        }
    }

    fn token_kind(&self, denom: &str) -> &'static str {
        if denom.starts_with("cw20:") {
            let a = &denom[5..];
            if self.tokens.iter().any(|t| t == a) {
                "cw20"
            } else {
                "fake-cw20"
            }
        } else {
            "native"
        }
    }

    fn all_token_denoms(&self) -> Vec<String> {
        let mut v: Vec<String> = NATIVES.iter().map(|s| s.to_string()).collect();
        v.extend(self.lookalikes.iter().cloned());
        v.extend(self.tokens.iter().map(|t| format!("cw20:{}", t)));
        v
    }

    fn balance_of(&self, who: &str, denom: &str) -> u128 {
        if let Some(t) = denom.strip_prefix("cw20:") {
            let label = self.chain.label_of(t).unwrap_or("").to_string();
            if label.starts_with("tok") {
                return self
                    .chain
                    .query::<cw20::BalanceResponse>(&label, &json!({"balance":{"address":who}}))
                    .map(|b| b.balance.u128())
                    .unwrap_or(0);
            }
            0
        } else {
            self.chain.bank_balance(who, denom)
        }
    }

    fn observe(&self) -> Option<ObsD> {
        let mut s = IcsSnap::default();
        let cfg: cw20_ics20::msg::ConfigResponse = self.chain.query("ics20", &json!({"config":{}})).ok()?;
        let adm: cw_controllers::AdminResponse = self.chain.query("ics20", &json!({"admin":{}})).ok()?;
        s.default_gas_limit = cfg.default_gas_limit;
        s.default_timeout = cfg.default_timeout;
        s.admin = adm.admin;
        let mut cur: Option<String> = None;
        loop {
            let p: cw20_ics20::msg::ListAllowedResponse = self
                .chain
                .query("ics20", &json!({"list_allowed":{"start_after":cur,"limit":30}}))
                .ok()?;
            let n = p.allow.len();
            cur = p.allow.last().map(|a| a.contract.clone());
            s.allowed.extend(p.allow.into_iter().map(|a| (a.contract, a.gas_limit)));
            if n < 30 {
                break;
            }
        }
        let l: cw20_ics20::msg::ListChannelsResponse = self.chain.query("ics20", &json!({"list_channels":{}})).ok()?;
        for ch in l.channels {
            let c: cw20_ics20::msg::ChannelResponse = self.chain.query("ics20", &json!({"channel":{"id":ch.id}})).ok()?;
            let mut m: BTreeMap<String, (u128, u128)> = BTreeMap::new();
            for a in &c.balances {
                m.entry(a.denom()).or_insert((0, 0)).0 = a.amount().u128();
            }
            for a in &c.total_sent {
                m.entry(a.denom()).or_insert((0, 0)).1 = a.amount().u128();
            }
            for (d, (o, t)) in m {
                s.books.push((ch.id.clone(), d, o, t));
            }
        }
        s.ok = true;
        let mut bal = BTreeMap::new();
        let mut who: Vec<String> = self.users.clone();
        who.push(self.ics.clone());
        for w in who {
            for d in self.all_token_denoms() {
                bal.insert((w.clone(), d.clone()), self.balance_of(&w, &d));
            }
        }
        Some(ObsD { snap: s, bal })
    }

    fn outstanding(obs: &ObsD, ch: &str, denom: &str) -> u128 {
        obs.snap
            .books
            .iter()
            .find(|b| b.0 == ch && b.1 == denom)
            .map(|b| b.2)
            .unwrap_or(0)
    }

    /// state invariants after every event
    fn check_state(&mut self, tx_failed: bool, out: &mut Vec<Violation>) {
        if !self.ics_ok {
            return;
        }
        let obs = match self.observe() {
            Some(o) => o,
            None => {
                self.viol(out, "C12", "query-failed", json!({"after_v1_migration": self.v1_migrated_without_default}), "ics20 queries failed".into());
                return;
            }
        };
        // C11: escrow covers the books, token by token
        for d in self.all_token_denoms() {
            let mut sum: u128 = 0;
            for b in &obs.snap.books {
                if b.1 == d {
                    sum = sum.saturating_add(b.2);
                }
            }
            let held = obs.bal.get(&(self.ics.clone(), d.clone())).cloned().unwrap_or(0);
            if held < sum {
                self.viol(
                    out,
                    "C11",
                    "escrow-below-outstanding",
                    json!({"token_kind": self.token_kind(&d)}),
                    format!("contract holds {} {} but channels report {} outstanding", held, d, sum),
                );
            }
        }
        // C12: books == oracle ledger; C11: payouts <= escrowed per channel and denom
        let mut keys: Vec<(String, String)> = self.ledger.keys().cloned().collect();
        for b in &obs.snap.books {
            keys.push((b.0.clone(), b.1.clone()));
        }
        keys.sort();
        keys.dedup();
        for (ch, d) in keys {
            let l = self.ledger.get(&(ch.clone(), d.clone())).cloned().unwrap_or_default();
            let out_now = Self::outstanding(&obs, &ch, &d);
            let total_now = obs.snap.books.iter().find(|b| b.0 == ch && b.1 == d).map(|b| b.3).unwrap_or(0);
            let want = l.sent.checked_sub(l.failed).and_then(|x| x.checked_sub(l.redeemed));
            if want != Some(out_now) {
                self.viol(
                    out,
                    "C12",
                    "outstanding-ne-ledger",
                    json!({"token_kind": self.token_kind(&d), "old_version_migration_rebooked_contract_surplus": self.rebooked.contains(&(ch.clone(), d.clone()))}),
                    format!(
                        "channel {} denom {}: outstanding {} but sent {} - failed/timed-out {} - redeemed {} = {:?}",
                        ch, d, out_now, l.sent, l.failed, l.redeemed, want
                    ),
                );
            }
            if total_now != l.sent {
                self.viol(out, "C12", "total-sent-ne-ledger", json!({"old_version_migration_rebooked_contract_surplus": self.rebooked.contains(&(ch.clone(), d.clone()))}), format!("channel {} denom {}: total_sent {} but {} was sent", ch, d, total_now, l.sent));
            }
            if l.paid_out > l.sent {
                self.viol(
                    out,
                    "C11",
                    "paid-out-more-than-escrowed",
                    json!({"token_kind": self.token_kind(&d)}),
                    format!("channel {} denom {}: paid out {} but only {} was ever escrowed on it", ch, d, l.paid_out, l.sent),
                );
            }
        }
        // rule 4
        if tx_failed {
            if let Some(prev) = &self.obs {
                if prev != &obs {
                    let books = prev.snap.books != obs.snap.books;
                    self.viol(
                        out,
                        if books { "C12" } else { "C11" },
                        "failed-tx-changed-state",
                        json!({"books_changed": books}),
                        "a failed transaction changed books, configuration or balances".into(),
                    );
                }
            }
        }
        // C18: allow list only grows / loosens
        if let Some(prev) = &self.prev_allowed {
            for (c, g) in prev {
                match obs.snap.allowed.iter().find(|x| x.0 == *c) {
                    None => self.viol(out, "C18", "allowed-token-removed", json!({}), format!("{} is no longer allowed", c)),
                    Some((_, g2)) => {
                        let lowered = match (g, g2) {
                            (None, Some(_)) => true,
                            (Some(a), Some(b)) => b < a,
                            _ => false,
                        };
                        if lowered {
                            self.viol(out, "C18", "gas-limit-lowered", json!({}), format!("{}: {:?} -> {:?}", c, g, g2));
                        }
                    }
                }
            }
        }
        if let Some(Some(_)) = self.prev_default_gas {
            if obs.snap.default_gas_limit.is_none() {
                self.viol(out, "C18", "default-gas-limit-unset", json!({}), "default gas limit went from set to unset".into());
            }
        }
        self.prev_allowed = Some(obs.snap.allowed.clone());
        self.prev_default_gas = Some(obs.snap.default_gas_limit);
        let mut h = Fnv::new();
        h.u64(obs.snap.allowed.len() as u64);
        h.u64(obs.snap.default_gas_limit.is_some() as u64);
        for b in &obs.snap.books {
            h.str(&b.0);
            h.u64(bucket(b.2));
        }
        h.u64(self.packets.iter().filter(|p| p.status == PStatus::InFlight).count() as u64);
        self.meter.state(h.0);
        self.obs = Some(obs);
    }

    // ---------------------------------------------------------------- frames

    fn expected_gas(&self, pre: &IcsSnap, denom: &str) -> Option<Option<u64>> {
        // Some(limit) = the limit the sub-message must carry; None = cannot be decided
        if let Some(t) = denom.strip_prefix("cw20:") {
            match pre.allowed.iter().find(|a| a.0 == t) {
                Some((_, g)) => Some(*g),
                None => pre.default_gas_limit.map(Some),
            }
        } else {
            Some(None)
        }
    }

    fn check_frames(&mut self, evs: &[Event], r: &TxResult, handling: Option<(&str, &str)>, out: &mut Vec<Violation>) {
        let ics = self.ics.clone();
        for ev in evs {
            let f = match ev {
                Event::Frame(f) if f.addr == ics => f,
                _ => continue,
            };
            let (pre, post) = match (f.pre.ics(), f.post.ics()) {
                (Some(a), Some(b)) => (a.clone(), b.clone()),
                _ => continue,
            };
            let resp = match f.outcome.response() {
                Some(r) => r.clone(),
                None => continue,
            };
            let committed = r.ok && f.outcome.is_ok();
            match f.entry {
                Entry::Execute => self.check_exec_frame(f, &pre, &post, &resp, committed, out),
                Entry::Sudo => {
                    // payout / refund sub-messages carry the right gas limit
                    for sm in &resp.messages {
                        let denom = match &sm.msg {
                            CosmosMsg::Bank(BankMsg::Send { amount, .. }) => amount.first().map(|c| c.denom.clone()),
                            CosmosMsg::Wasm(WasmMsg::Execute { contract_addr, .. }) => Some(format!("cw20:{}", contract_addr)),
                            _ => None,
                        };
                        if let Some(d) = denom {
                            if let Some(want) = self.expected_gas(&pre, &d) {
                                if sm.gas_limit != want {
                                    self.viol(
                                        out,
                                        "C18",
                                        "payout-gas-limit",
                                        json!({"token_kind": self.token_kind(&d)}),
                                        format!("payout of {} issued with gas limit {:?}, expected {:?}", d, sm.gas_limit, want),
                                    );
                                }
                            } else {
                                self.viol(out, "C18", "payout-for-unlisted-token-without-default", json!({}), format!("payout of {} although the token is neither listed nor covered by a default", d));
                            }
                        }
                    }
                    if pre.admin != post.admin || pre.allowed != post.allowed || pre.default_gas_limit != post.default_gas_limit {
                        self.viol(out, "C18", "governance-state-changed-by-ibc-callback", json!({}), "an IBC callback changed admin / allow list / default".into());
                    }
                }
                Entry::Migrate => {
                    if pre.allowed != post.allowed && !pre.allowed.iter().all(|a| post.allowed.contains(a)) {
                        self.viol(out, "C18", "migrate-removed-allowed-token", json!({}), "migrate removed or changed an allow-list entry".into());
                    }
                }
                _ => {}
            }
        }
        let _ = handling;
    }

    fn check_exec_frame(&mut self, f: &Frame, pre: &IcsSnap, post: &IcsSnap, resp: &cosmwasm_std::Response, committed: bool, out: &mut Vec<Violation>) {
        let v: Value = match cosmwasm_std::from_json(&f.msg) {
            Ok(v) => v,
            Err(_) => return,
        };
        let kind = v.as_object().and_then(|o| o.keys().next().cloned()).unwrap_or_default();
        let by_admin = pre.admin.as_deref() == Some(f.sender.as_str());
        let role = if by_admin {
            "governance"
        } else if self.users.contains(&f.sender) {
            "user"
        } else if self.tokens.contains(&f.sender) {
            "token"
        } else {
            "other"
        };
        match kind.as_str() {
            "allow" | "update_admin" => {
                if !by_admin {
                    self.viol(out, "C18", "governance-call-ok-for-non-governance", json!({"call": kind}), format!("{} by {} succeeded; governance was {:?}", kind, role, pre.admin));
                }
                if kind == "allow" {
                    let c = v["allow"]["contract"].as_str().unwrap_or("").to_string();
                    let g = v["allow"]["gas_limit"].as_u64();
                    let old = pre.allowed.iter().find(|a| a.0 == c).map(|a| a.1);
                    let lowered = match (old, g) {
                        (Some(None), Some(_)) => true,
                        (Some(Some(a)), Some(b)) => b < a,
                        _ => false,
                    };
                    if lowered {
                        self.viol(out, "C18", "allow-lowered-gas-limit", json!({}), format!("Allow lowered {} from {:?} to {:?}", c, old, g));
                    }
                    let now = post.allowed.iter().find(|a| a.0 == c).map(|a| a.1);
                    if now != Some(g) {
                        self.viol(out, "C18", "allow-result", json!({}), format!("after Allow({}, {:?}) the entry is {:?}", c, g, now));
                    }
                    for a in &pre.allowed {
                        if a.0 != c && !post.allowed.contains(a) {
                            self.viol(out, "C18", "allow-touched-other-entry", json!({}), format!("{:?}", a));
                        }
                    }
                    if committed {
                        self.meter.flag("allow_ok");
                    }
                } else {
                    let want = v["update_admin"]["admin"].as_str().map(|s| s.to_string());
                    if post.admin != want {
                        self.viol(out, "C18", "update-admin-result", json!({}), format!("admin is {:?}, requested {:?}", post.admin, want));
                    }
                    if committed {
                        self.meter.flag("gov_handed_over");
                    }
                }
                self.meter.token(&kind, role, if committed { "committed" } else { "rolled-back" }, 0);
            }
            "transfer" | "receive" => {
                let (tm, denom, amount, initiator) = if kind == "transfer" {
                    let c = f.funds.first().cloned();
                    (
                        v["transfer"].clone(),
                        c.as_ref().map(|c| c.denom.clone()).unwrap_or_default(),
                        c.as_ref().map(|c| c.amount.u128()).unwrap_or(0),
                        f.sender.clone(),
                    )
                } else {
                    let inner: Value = v["receive"]["msg"]
                        .as_str()
                        .and_then(|s| Binary::from_base64(s).ok())
                        .and_then(|b| serde_json::from_slice(b.as_slice()).ok())
                        .unwrap_or(Value::Null);
                    (
                        inner,
                        format!("cw20:{}", f.sender),
                        v["receive"]["amount"].as_str().and_then(|s| s.parse::<u128>().ok()).unwrap_or(0),
                        v["receive"]["sender"].as_str().unwrap_or("").to_string(),
                    )
                };
                if kind == "transfer" && f.funds.len() != 1 {
                    self.viol(out, "C12", "transfer-accepted-without-single-coin", json!({}), format!("funds {:?}", f.funds));
                }
                if kind == "receive" {
                    // C18: only allowed tokens, or any with a default gas limit
                    let listed = pre.allowed.iter().any(|a| a.0 == f.sender);
                    if !listed && pre.default_gas_limit.is_none() {
                        self.viol(out, "C18", "unlisted-token-accepted", json!({}), format!("cw20 transfer from unlisted token {} accepted without default gas limit", role));
                    }
                }
                let channel = tm["channel"].as_str().unwrap_or("").to_string();
                let receiver = tm["remote_address"].as_str().unwrap_or("").to_string();
                let memo = tm["memo"].as_str().map(|s| s.to_string());
                let timeout_s = tm["timeout"].as_u64().unwrap_or(pre.default_timeout);
                let want_timeout = IbcTimeout::with_timestamp(f.block.time.plus_seconds(timeout_s));
                let ok = resp.messages.len() == 1
                    && match &resp.messages[0].msg {
                        CosmosMsg::Ibc(IbcMsg::SendPacket { channel_id, data, timeout }) => {
                            let p: Option<cw20_ics20::ibc::Ics20Packet> = cosmwasm_std::from_json(data).ok();
                            *channel_id == channel
                                && *timeout == want_timeout
                                && p.map(|p| {
                                    p.amount.u128() == amount
                                        && amount <= u64::MAX as u128
                                        && amount > 0
                                        && p.denom == denom
                                        && p.sender == initiator
                                        && p.receiver == receiver
                                        && p.memo == memo
                                })
                                .unwrap_or(false)
                        }
                        _ => false,
                    };
                if !ok {
                    self.viol(
                        out,
                        "C12",
                        "transfer-packet-wrong",
                        json!({"path": kind}),
                        format!(
                            "accepted {} of {} {} on {} did not emit exactly one ICS-20 packet with amount/denom/sender/receiver/memo/timeout as requested",
                            kind, amount, denom, channel
                        ),
                    );
                }
                if amount == u64::MAX as u128 {
                    self.meter.hit("transfer_of_exactly_u64_max");
                }
                if committed {
                    self.meter.flag("transfer_ok");
                }
                self.meter.token(&kind, role, if committed { "committed" } else { "rolled-back" }, bucket(amount));
            }
            _ => {}
        }
        if !matches!(kind.as_str(), "allow" | "update_admin") && (pre.admin != post.admin || pre.allowed != post.allowed || pre.default_gas_limit != post.default_gas_limit) {
            self.viol(out, "C18", "governance-state-changed-by-other-call", json!({"call": kind}), format!("{} changed admin / allow list / default gas limit", kind));
        }
    }

    /// Versions before 0.13.1 updated the books only on a success acknowledgement (migrations.rs says so and
    /// v2::update_balances exists to repair exactly that): rewrite the rows so that sends still in flight are not
    /// booked. Rows are kept (at zero if need be) rather than deleted — whether the old code had a row for a
    /// denomination that was never acknowledged is not derivable from this repository.
    fn unbook_in_flight(&mut self, dump: &[(Vec<u8>, Vec<u8>)], ops: &mut Vec<(Binary, Option<Binary>)>, undo: &mut Vec<(Binary, Option<Binary>)>) {
        let mut inflight: BTreeMap<(String, String), u128> = BTreeMap::new();
        for p in &self.packets {
            if p.status == PStatus::InFlight {
                *inflight.entry((p.channel.clone(), p.denom.clone())).or_insert(0) += p.amount;
            }
        }
        // only states the old code could have produced: every in-flight amount must still be fully outstanding
        // (the old code could not have redeemed vouchers of a packet that was not acknowledged yet)
        for ((ch, d), amt) in &inflight {
            let key = rawkeys::map_key2("channel_state", ch.as_bytes(), d.as_bytes());
            let okk = dump
                .iter()
                .find(|(k, _)| *k == key)
                .and_then(|(_, v)| cosmwasm_std::from_json::<cw20_ics20::state::ChannelState>(v).ok())
                .map(|st| st.outstanding.u128() >= *amt && st.total_sent.u128() >= *amt)
                .unwrap_or(false);
            if !okk {
                return;
            }
        }
        for ((ch, d), amt) in inflight {
            let key = rawkeys::map_key2("channel_state", ch.as_bytes(), d.as_bytes());
            if let Some((_, v)) = dump.iter().find(|(k, _)| *k == key) {
                if let Ok(st) = cosmwasm_std::from_json::<cw20_ics20::state::ChannelState>(v) {
                    let o = st.outstanding.u128().saturating_sub(amt);
                    let t = st.total_sent.u128().saturating_sub(amt);
                    undo.push((key.clone().into(), Some(v.clone().into())));
                    ops.push((key.into(), Some(format!("{{\"outstanding\":\"{}\",\"total_sent\":\"{}\"}}", o, t).into_bytes().into())));
                    self.meter.hit("migration_with_unbooked_in_flight_sends");
                }
            }
        }
    }

    /// packets emitted by a committed transaction go into the relayer's outbox
    fn collect_packets(&mut self, evs: &[Event], r: &TxResult) {
        if !r.ok {
            return;
        }
        for ev in evs {
            if let Event::Module(m) = ev {
                if m.sender != self.ics || !m.ok {
                    continue;
                }
                if let ModMsg::Ibc(IbcMsg::SendPacket { channel_id, data, timeout }) = &m.msg {
                    let seq = {
                        let e = self.next_seq.entry(channel_id.clone()).or_insert(0);
                        *e += 1;
                        *e
                    };
                    let cp = self.channels.iter().find(|c| c.0 == *channel_id).map(|c| c.1.clone()).unwrap_or_default();
                    let p: Option<cw20_ics20::ibc::Ics20Packet> = cosmwasm_std::from_json(data).ok();
                    let (denom, amount, sender) = p.map(|p| (p.denom, p.amount.u128(), p.sender)).unwrap_or_default();
                    let l = self.ledger.entry((channel_id.clone(), denom.clone())).or_default();
                    l.sent = l.sent.saturating_add(amount);
                    let payable_at_send = match denom.strip_prefix("cw20:") {
                        None => true,
                        Some(tok) => self
                            .obs
                            .as_ref()
                            .map(|o| o.snap.default_gas_limit.is_some() || o.snap.allowed.iter().any(|a| a.0 == tok))
                            .unwrap_or(false),
                    };
                    let sent_step = self.step_idx;
                    self.packets.push(SentPacket {
                        desc: PacketDesc {
                            data: data.clone(),
                            src_port: OUR_PORT.into(),
                            src_channel: channel_id.clone(),
                            dest_port: THEIR_PORT.into(),
                            dest_channel: cp,
                            sequence: seq,
                            timeout_ts_nanos: timeout.timestamp().map(|t| t.nanos()).unwrap_or(0),
                        },
                        channel: channel_id.clone(),
                        denom,
                        amount,
                        sender,
                        status: PStatus::InFlight,
                        payable_at_send,
                        sent_step,
                    });
                }
            }
        }
    }

    /// tokens that actually left the contract in a committed handling transaction
    fn payouts_in(&self, evs: &[Event], r: &TxResult) -> Vec<(String, String, u128)> {
        let mut v = vec![];
        if !r.ok {
            return v;
        }
        for ev in evs {
            match ev {
                Event::Module(m) if m.ok && m.sender == self.ics => {
                    if let ModMsg::Bank(BankMsg::Send { to_address, amount }) = &m.msg {
                        for c in amount {
                            v.push((to_address.clone(), c.denom.clone(), c.amount.u128()));
                        }
                    }
                }
                Event::Frame(f) if f.sender == self.ics && f.entry == Entry::Execute && f.outcome.is_ok() => {
                    if let Ok(cw20::Cw20ExecuteMsg::Transfer { recipient, amount }) = cosmwasm_std::from_json(&f.msg) {
                        v.push((recipient, format!("cw20:{}", f.addr), amount.u128()));
                    }
                }
                _ => {}
            }
        }
        v
    }

    fn apply_ibc(&mut self, msg: &IbcSudo, fault: &Option<Fault>, out: &mut Vec<Violation>) {
        if !self.ics_ok {
            return;
        }
        let before = match self.obs.clone() {
            Some(o) => o,
            None => return,
        };
        match msg {
            IbcSudo::Receive(p) => {
                // IBC core: the packet arrives on a connected channel from its true counterparty
                let ch = match self.channels.iter().find(|c| c.0 == p.dest_channel) {
                    Some(c) => c.clone(),
                    None => return,
                };
                if p.src_channel != ch.1 || p.src_port != THEIR_PORT || p.dest_port != OUR_PORT {
                    return;
                }
                if !self.cfg.malicious {
                    // an honest remote chain only sends back vouchers it actually holds
                    let pk: Option<cw20_ics20::ibc::Ics20Packet> = cosmwasm_std::from_json(&p.data).ok();
                    let okk = pk
                        .map(|k| {
                            let parts: Vec<&str> = k.denom.splitn(3, '/').collect();
                            parts.len() == 3
                                && self.remote_vouchers.get(&(ch.0.clone(), parts[2].to_string())).cloned().unwrap_or(0) >= k.amount.u128()
                        })
                        .unwrap_or(false);
                    if !okk {
                        return;
                    }
                }
                let r = self.chain.sudo("ics20", &serde_json::to_value(msg).unwrap(), fault.clone());
                let evs = self.chain.events(&r);
                self.check_frames(&evs, &r, Some(("receive", &ch.0)), out);
                let injected_on_ics = fault.as_ref().map(|f| f.target == self.ics).unwrap_or(false);
                let pk: Option<cw20_ics20::ibc::Ics20Packet> = cosmwasm_std::from_json(&p.data).ok();
                let (vd, amount, receiver) = pk.clone().map(|k| (k.denom, k.amount.u128(), k.receiver)).unwrap_or_default();
                let local_denom: Option<String> = {
                    let parts: Vec<&str> = vd.splitn(3, '/').collect();
                    if parts.len() == 3 && parts[0] == THEIR_PORT && parts[1] == ch.1 {
                        Some(parts[2].to_string())
                    } else {
                        None
                    }
                };
                if !r.ok {
                    if !injected_on_ics {
                        // handling a packet must never fail or abort: it must be turned into an error acknowledgement
                        let aborted = evs.iter().any(|e| matches!(e, Event::Frame(f) if f.addr == self.ics && matches!(f.outcome, crate::chain::Outcome::Abort)));
                        self.viol(
                            out,
                            "C12",
                            if aborted { "receive-aborted" } else { "receive-returned-error" },
                            json!({}),
                            format!("handling an incoming packet ({} {}) {}", amount, vd, if aborted { "aborted" } else { "failed instead of acknowledging" }),
                        );
                    }
                    self.check_state(true, out);
                    return;
                }
                let ack = r.data.clone().and_then(|d| ack_is_success(&d));
                let after = match self.observe() {
                    Some(o) => o,
                    None => {
                        self.check_state(false, out);
                        return;
                    }
                };
                let pays = self.payouts_in(&evs, &r);
                match ack {
                    Some(true) => {
                        self.meter.flag("recv_success_ack");
                        // full amount paid to the receiver, balance reduced by it
                        let d = local_denom.clone().unwrap_or_default();
                        let out_before = Self::outstanding(&before, &ch.0, &d);
                        let out_after = Self::outstanding(&after, &ch.0, &d);
                        let paid_ok = pays.len() == 1 && pays[0] == (receiver.clone(), d.clone(), amount);
                        let real = self.token_kind(&d) != "fake-cw20";
                        let rb = before.bal.get(&(receiver.clone(), d.clone())).cloned();
                        let ra = after.bal.get(&(receiver.clone(), d.clone())).cloned();
                        let recv_ok = match (rb, ra) {
                            (Some(b), Some(a)) => a == b.saturating_add(amount) || receiver == self.ics,
                            _ => true,
                        };
                        if local_denom.is_none() || out_before.checked_sub(amount) != Some(out_after) || (real && (!paid_ok || !recv_ok)) {
                            self.viol(
                                out,
                                "C12",
                                "success-ack-without-full-redemption",
                                json!({"token_kind": self.token_kind(&d)}),
                                format!(
                                    "success ack for {} {}: outstanding {} -> {}, payouts {:?}, receiver balance {:?} -> {:?}",
                                    amount, vd, out_before, out_after, pays, rb, ra
                                ),
                            );
                        }
                        let l = self.ledger.entry((ch.0.clone(), d.clone())).or_default();
                        l.redeemed = l.redeemed.saturating_add(amount);
                        l.paid_out = l.paid_out.saturating_add(pays.iter().filter(|x| x.1 == d).map(|x| x.2).sum());
                        // honest remote burned the vouchers it sent back
                        let rv = self.remote_vouchers.entry((ch.0.clone(), d.clone())).or_insert(0);
                        *rv = rv.saturating_sub(amount);
                        if out_after == 0 {
                            self.meter.hit("redeemed_to_zero_outstanding");
                        }
                    }
                    Some(false) => {
                        self.meter.flag("recv_error_ack");
                        if !pays.is_empty() {
                            self.viol(out, "C11", "payout-despite-error-ack", json!({}), format!("error ack but payouts {:?}", pays));
                        }
                        if before != after {
                            let only_outstanding = before.bal == after.bal
                                && before.snap.allowed == after.snap.allowed
                                && before.snap.books.len() == after.snap.books.len();
                            let d = local_denom.clone().unwrap_or_default();
                            let lowered_by_amount = Self::outstanding(&before, &ch.0, &d).checked_sub(amount) == Some(Self::outstanding(&after, &ch.0, &d));
                            self.viol(
                                out,
                                "C12",
                                "error-ack-changed-state",
                                json!({
                                    "after_v1_migration_without_default_gas": self.v1_migrated_without_default,
                                    "only_outstanding_lowered_by_packet_amount": only_outstanding && lowered_by_amount,
                                    "token_kind": self.token_kind(&d),
                                }),
                                format!(
                                    "error ack for {} {} on {}, but state differs from before the packet (outstanding {} -> {})",
                                    amount,
                                    vd,
                                    ch.0,
                                    Self::outstanding(&before, &ch.0, &d),
                                    Self::outstanding(&after, &ch.0, &d)
                                ),
                            );
                        }
                        if evs.iter().any(|e| matches!(e, Event::Frame(f) if f.addr == self.ics && f.entry == Entry::Reply)) {
                            self.meter.hit("payout_failed_and_reply_undid_it");
                        }
                    }
                    None => {
                        self.viol(out, "C12", "no-acknowledgement", json!({}), "incoming packet handled without an ICS-20 acknowledgement".into());
                    }
                }
                // C11: foreign / other-channel / excessive packets release nothing
                let foreign = local_denom.is_none();
                let excessive = local_denom.as_ref().map(|d| amount > Self::outstanding(&before, &ch.0, d)).unwrap_or(false);
                if (foreign || excessive) && (!pays.is_empty() || before.snap.books != after.snap.books) {
                    self.viol(
                        out,
                        "C11",
                        "foreign-or-excessive-packet-released-tokens",
                        json!({"foreign": foreign, "excessive": excessive}),
                        format!("packet {} {} (outstanding {:?}) caused payouts {:?} or a book change", amount, vd, local_denom.as_ref().map(|d| Self::outstanding(&before, &ch.0, d)), pays),
                    );
                }
                if foreign {
                    self.meter.hit("foreign_or_other_channel_packet");
                }
                if excessive {
                    self.meter.hit("packet_above_outstanding");
                }
                self.meter.token("recv", if self.cfg.malicious { "malicious" } else { "honest" }, match ack { Some(true) => "ack-ok", Some(false) => "ack-err", None => "none" }, bucket(amount));
                self.check_state(false, out);
            }
            IbcSudo::Ack { ack, packet } => {
                let i = match self.packets.iter().position(|p| p.desc == *packet && p.status == PStatus::InFlight) {
                    Some(i) => i,
                    None => return,
                };
                let success = match ack_is_success(ack) {
                    Some(s) => s,
                    None => return,
                };
                let r = self.chain.sudo("ics20", &serde_json::to_value(msg).unwrap(), fault.clone());
                let evs = self.chain.events(&r);
                self.check_frames(&evs, &r, Some(("ack", &packet.src_channel)), out);
                if r.ok {
                    self.settle(i, success, &evs, &r, out);
                    self.meter.flag(if success { "ack_success" } else { "ack_error" });
                }
                self.meter.token("ack", if success { "ok" } else { "err" }, if r.ok { "handled" } else { "failed" }, 0);
                self.settlement_undone(&evs, &r, fault, "acknowledgement", &p_desc(packet), out);
                self.check_state(!r.ok, out);
            }
            IbcSudo::Timeout(packet) => {
                let i = match self.packets.iter().position(|p| p.desc == *packet && p.status == PStatus::InFlight) {
                    Some(i) => i,
                    None => return,
                };
                if self.chain.block().time.nanos() < packet.timeout_ts_nanos {
                    return;
                }
                let r = self.chain.sudo("ics20", &serde_json::to_value(msg).unwrap(), fault.clone());
                let evs = self.chain.events(&r);
                self.check_frames(&evs, &r, Some(("timeout", &packet.src_channel)), out);
                if r.ok {
                    self.settle(i, false, &evs, &r, out);
                    self.meter.flag("timeout_handled");
                }
                self.meter.token("timeout", "relayer", if r.ok { "handled" } else { "failed" }, 0);
                self.settlement_undone(&evs, &r, fault, "timeout", &p_desc(packet), out);
                self.check_state(!r.ok, out);
            }
            _ => {}
        }
    }

    /// The relayer delivered the acknowledgement / timeout of a send and the contract's own handler accepted it,
    /// yet the transaction was undone although nothing was injected into the contract itself (only a refund
    /// sub-call failed): the send has failed or timed out but stays on the books as outstanding.
    fn settlement_undone(&mut self, evs: &[Event], r: &TxResult, fault: &Option<Fault>, what: &str, pk: &str, out: &mut Vec<Violation>) {
        if r.ok || r.aborted_outside {
            return;
        }
        let injected_on_ics = fault.as_ref().map(|f| f.target == self.ics).unwrap_or(false);
        let handler_ok = evs.iter().any(|e| matches!(e, Event::Frame(f) if f.addr == self.ics && f.entry == Entry::Sudo && f.outcome.is_ok()));
        let ics_faulted = evs.iter().any(|e| {
            matches!(e, Event::Frame(f) if f.addr == self.ics && matches!(f.outcome, crate::chain::Outcome::Abort | crate::chain::Outcome::FaultEarly | crate::chain::Outcome::FaultLate(_)))
        });
        // the handler itself refused a genuine acknowledgement / timeout of a send whose token is (still) allowed:
        // the relayer can never settle it
        let handler_err = evs.iter().any(|e| matches!(e, Event::Frame(f) if f.addr == self.ics && f.entry == Entry::Sudo && matches!(f.outcome, crate::chain::Outcome::Err)));
        if handler_err && !injected_on_ics && !ics_faulted && fault.is_none() && !self.cfg.malicious {
            // (a malicious counterparty can redeem vouchers of a send and then fail the same send; the handler is
            // right to refuse then — with an honest remote the books always cover an in-flight send)
            let pkt = self.packets.iter().find(|p| p_desc(&p.desc) == pk).cloned();
            let denom = pkt.as_ref().map(|p| p.denom.clone()).unwrap_or_default();
            let covered = match (&pkt, &self.obs) {
                (Some(p), Some(o)) => Self::outstanding(o, &p.channel, &p.denom) >= p.amount,
                _ => false,
            };
            if !covered {
                return;
            }
            let payable_now = match denom.strip_prefix("cw20:") {
                None => true,
                Some(tok) => self
                    .obs
                    .as_ref()
                    .map(|o| o.snap.default_gas_limit.is_some() || o.snap.allowed.iter().any(|a| a.0 == tok))
                    .unwrap_or(false),
            };
            // a token that was allowed when the send was accepted stays allowed (the list only loosens) — unless the
            // scenario has since rewritten the contract into the layout of a version that had no allow list
            let was_payable = pkt
                .as_ref()
                .map(|p| p.payable_at_send && self.last_old_layout_step.map(|s| s < p.sent_step).unwrap_or(true))
                .unwrap_or(false);
            if payable_now || was_payable {
                self.viol(
                    out,
                    "C12",
                    "settlement-refused",
                    json!({"event": what}),
                    format!("the {} of {} ({}) was refused by the handler although the token is allowed and nothing was injected: the send stays outstanding", what, pk, denom),
                );
            }
        }
        if handler_ok && !injected_on_ics && !ics_faulted {
            self.viol(
                out,
                "C12",
                "settlement-undone-by-failed-refund",
                json!({"event": what}),
                format!("the {} of {} was accepted by the handler, but the transaction was undone when the refund sub-call failed: the send stays outstanding", what, pk),
            );
        }
    }

    fn settle(&mut self, i: usize, success: bool, evs: &[Event], r: &TxResult, out: &mut Vec<Violation>) {
        let p = self.packets[i].clone();
        let pays = self.payouts_in(evs, r);
        if success {
            self.packets[i].status = PStatus::AckedOk;
            if !pays.is_empty() {
                self.viol(out, "C11", "payout-on-success-ack", json!({}), format!("{:?}", pays));
            }
            let rv = self.remote_vouchers.entry((p.channel.clone(), p.denom.clone())).or_insert(0);
            *rv = rv.saturating_add(p.amount);
        } else {
            self.packets[i].status = PStatus::Failed;
            let l = self.ledger.entry((p.channel.clone(), p.denom.clone())).or_default();
            l.failed = l.failed.saturating_add(p.amount);
            l.paid_out = l.paid_out.saturating_add(pays.iter().filter(|x| x.1 == p.denom).map(|x| x.2).sum());
            // the refund either went to the original sender in full, or failed (error in reply) and nothing moved
            let full = pays.len() == 1 && pays[0] == (p.sender.clone(), p.denom.clone(), p.amount);
            if !(full || pays.is_empty()) {
                self.viol(out, "C11", "refund-wrong", json!({}), format!("refund of {} {} to {}: payouts {:?}", p.amount, p.denom, p.sender, pays));
            }
            if pays.is_empty() {
                self.meter.hit("refund_sub_call_failed");
            }
        }
    }

    fn probe_c20(&mut self, full: bool, out: &mut Vec<Violation>) {
        if !self.ics_ok || !self.on("C20") {
            return;
        }
        let limits: Vec<Option<u32>> = if full { LIMITS.to_vec() } else { vec![None, Some(1), Some(30), Some(31)] };
        let dump = self.chain.dump("ics20");
        let expected: Vec<(String, Option<u64>)> = rawkeys::entries(&dump, "allow_list")
            .into_iter()
            .filter_map(|(k, v)| {
                let a: cw20_ics20::state::AllowInfo = cosmwasm_std::from_json(&v).ok()?;
                Some((String::from_utf8(k).ok()?, a.gas_limit))
            })
            .collect();
        if expected.len() > 30 {
            self.meter.hit("c20_listing_over_30");
        }
        let chain = &self.chain;
        let mut pages = 0u64;
        let r = check_paging::<(String, Option<u64>), String>(
            &expected,
            &|cur, lim| {
                chain
                    .query::<cw20_ics20::msg::ListAllowedResponse>("ics20", &json!({"list_allowed":{"start_after":cur,"limit":lim}}))
                    .map(|r| r.allow.into_iter().map(|a| (a.contract, a.gas_limit)).collect())
            },
            &|i| i.0.clone(),
            &limits,
            &mut pages,
        );
        if let Err((c, d)) = r {
            self.viol(out, "C20", &format!("cw20-ics20-list-allowed/{}", c), json!({"list":"list_allowed"}), d);
        }
        for (c, g) in expected.iter().take(40) {
            if let Ok(q) = chain.query::<cw20_ics20::msg::AllowedResponse>("ics20", &json!({"allowed":{"contract": c}})) {
                if !q.is_allowed || q.gas_limit != *g {
                    self.viol(out, "C20", "cw20-ics20-list-allowed/listed-item-ne-point-query", json!({"list":"list_allowed"}), format!("{}: listed {:?} but Allowed says {:?}", c, g, q));
                }
            }
        }
        // and every current item is listed: a token the point query reports as allowed is an item of the listing
        let mut cands: Vec<String> = self.tokens.clone();
        cands.push(self.fake_token.clone());
        for i in 0..4 {
            cands.push(addr_of(&format!("sometoken{}", i)));
        }
        for c in cands {
            if let Ok(q) = chain.query::<cw20_ics20::msg::AllowedResponse>("ics20", &json!({"allowed":{"contract": c}})) {
                if q.is_allowed && !expected.iter().any(|e| e.0 == c) {
                    self.viol(
                        out,
                        "C20",
                        "cw20-ics20-list-allowed/current-item-not-listed",
                        json!({"list":"list_allowed"}),
                        format!("{}: Allowed says is_allowed (gas limit {:?}) but ListAllowed does not return it", c, q.gas_limit),
                    );
                }
            }
        }
        *self.meter.probes.entry("c20_pages_walked").or_insert(0) += pages;
        self.meter.flag("c20_probed");
    }

    // ---------------------------------------------------------------- generation

    fn gen_transfer(&mut self, rng: &mut Rng) -> Step {
        let user = rng.pick(&self.users).clone();
        let ch = if rng.chance(1, 15) { "channel-77".to_string() } else { rng.pick(&self.channels).0.clone() };
        let timeout = match rng.below(4) {
            0 => Value::Null,
            1 => json!(*rng.pick(&[0u64, 1, 5, 60])),
            _ => json!(*rng.pick(&[1u64, 10, 1000]) * self.cfg.spb.max(1)),
        };
        let memo = if rng.chance(1, 4) { json!("hello") } else { Value::Null };
        let tm = json!({"channel": ch, "remote_address": format!("remote{}", rng.below(3)), "timeout": timeout, "memo": memo});
        let (fault, script) = self.gen_fault(rng);
        if rng.chance(1, 2) || self.tokens.is_empty() {
            let d: String = if !self.lookalikes.is_empty() && rng.chance(1, 7) { rng.pick(&self.lookalikes).clone() } else { rng.pick(&NATIVES).to_string() };
            let d = d.as_str();
            let bal = self.chain.bank_balance(&user, d);
            let amt = match rng.below(10) {
                0 => 0,
                1 => u64::MAX as u128,
                2 => u64::MAX as u128 + 1,
                _ => amount_near(rng, bal.min(1_000_000)).min(bal).max(1),
            };
            let funds = match rng.below(12) {
                0 => vec![],
                1 => vec![(d.to_string(), amt.to_string()), ("ustar2".to_string(), "1".to_string())],
                _ => vec![(d.to_string(), amt.to_string())],
            };
            Step::Tx { sender: user, target: "ics20".into(), msg: json!({"transfer": tm}), funds, fault, script }
        } else if rng.chance(1, 8) {
            // a fake token (sink) claims a deposit
            let m = json!({"receive":{"sender": user, "amount": rng.range(1, 1000).to_string(), "msg": Binary::from(serde_json::to_vec(&tm).unwrap()).to_base64()}});
            let call = serde_json::to_value(CosmosMsg::<cosmwasm_std::Empty>::Wasm(WasmMsg::Execute { contract_addr: self.ics.clone(), msg: Binary::from(serde_json::to_vec(&m).unwrap()), funds: vec![] })).unwrap();
            Step::Tx { sender: user, target: "sink0".into(), msg: json!({}), funds: vec![], fault: None, script: vec![("sink0".into(), SinkAct::Call(vec![call]))] }
        } else {
            let ti = rng.below(self.tokens.len() as u64) as usize;
            let bal = self.balance_of(&user, &format!("cw20:{}", self.tokens[ti]));
            let amt = match rng.below(10) {
                0 => 0,
                1 => u64::MAX as u128,
                2 => u64::MAX as u128 + 1,
                _ => amount_near(rng, bal.min(1_000_000)).min(bal).max(1),
            };
            let m = json!({"send":{"contract": self.ics, "amount": amt.to_string(), "msg": Binary::from(serde_json::to_vec(&tm).unwrap()).to_base64()}});
            Step::Tx { sender: user, target: format!("tok{}", ti), msg: m, funds: vec![], fault, script }
        }
    }

    fn gen_fault(&mut self, rng: &mut Rng) -> (Option<Fault>, Vec<(String, SinkAct)>) {
        let fault = if self.cfg.faults && rng.chance(1, 5) {
            let mut targets = vec!["bank".to_string(), "ibc".to_string()];
            targets.extend(self.tokens.iter().cloned());
            targets.push(self.tokens.first().cloned().unwrap_or("bank".into()));
            targets.push("bank".to_string());
            Some(Fault { target: rng.pick(&targets).clone(), nth: rng.range(1, 2) as u32, mode: if rng.chance(1, 2) { FaultMode::Early } else { FaultMode::Late } })
        } else {
            None
        };
        let script = if rng.chance(1, 10) { vec![("sink0".to_string(), SinkAct::Fail)] } else { vec![] };
        (fault, script)
    }

    fn gen_receive(&mut self, rng: &mut Rng) -> Step {
        let ch = rng.pick(&self.channels).clone();
        let obs = self.obs.clone();
        // candidate (denom, outstanding) on this channel
        let mut cands: Vec<(String, u128)> = vec![];
        if let Some(o) = &obs {
            for b in &o.snap.books {
                if b.0 == ch.0 {
                    cands.push((b.1.clone(), b.2));
                }
            }
        }
        let honest = !self.cfg.malicious;
        let receiver = if rng.chance(1, 12) { "not-an-address".to_string() } else { rng.pick(&self.users).clone() };
        let (denom, amount): (String, u128) = if honest {
            // only vouchers that exist on the remote side
            let have: Vec<(String, u128)> = self
                .remote_vouchers
                .iter()
                .filter(|((c, _), v)| *c == ch.0 && **v > 0)
                .map(|((_, d), v)| (d.clone(), *v))
                .collect();
            if have.is_empty() {
                return self.gen_transfer(rng);
            }
            let (d, v) = rng.pick(&have).clone();
            let a = match rng.below(6) {
                0 => v,
                1 => 1,
                _ => (v / 2).max(1),
            };
            (format!("{}/{}/{}", THEIR_PORT, ch.1, d), a)
        } else {
            let base = if !cands.is_empty() && rng.chance(3, 4) { rng.pick(&cands).clone() } else { (NATIVES[0].to_string(), 0) };
            let denom = match rng.below(12) {
                0 => base.0.clone(),                                                   // no prefix: foreign token
                1 => format!("otherport/{}/{}", ch.1, base.0),                         // other port
                2 => format!("{}/channel-1234/{}", THEIR_PORT, base.0),                // other channel
                3 => format!("{}/{}/{}/{}/{}", THEIR_PORT, ch.1, THEIR_PORT, ch.1, base.0), // nested
                4 => format!("{}/{}/cw20:nonsense", THEIR_PORT, ch.1),
                6 => {
                    // the same letters in the other case: another denom, possibly escrowed for another channel
                    let flipped = if base.0.chars().any(|c| c.is_ascii_lowercase()) { base.0.to_uppercase() } else { base.0.to_lowercase() };
                    format!("{}/{}/{}", THEIR_PORT, ch.1, flipped)
                }
                5 => {
                    // a denom that lives on another channel of ours
                    let other = self.channels.iter().find(|c| c.0 != ch.0).cloned().unwrap_or(ch.clone());
                    format!("{}/{}/{}", THEIR_PORT, other.1, base.0)
                }
                _ => format!("{}/{}/{}", THEIR_PORT, ch.1, base.0),
            };
            let amount = match rng.below(10) {
                0 => 0,
                1 => base.1.saturating_add(1),
                2 => u64::MAX as u128 + 1,
                3 => u128::MAX,
                4 => base.1,
                _ => (base.1 / 2).max(1),
            };
            (denom, amount)
        };
        let data = if !honest && rng.chance(1, 20) {
            Binary::from(b"not json".to_vec())
        } else {
            Binary::from(serde_json::to_vec(&json!({"amount": amount.to_string(), "denom": denom, "receiver": receiver, "sender": "remote-sender"})).unwrap())
        };
        self.in_seq += 1;
        let (fault, _) = self.gen_fault(rng);
        Step::Ibc {
            msg: IbcSudo::Receive(PacketDesc {
                data,
                src_port: THEIR_PORT.into(),
                src_channel: ch.1.clone(),
                dest_port: OUR_PORT.into(),
                dest_channel: ch.0.clone(),
                sequence: self.in_seq,
                timeout_ts_nanos: u64::MAX / 2,
            }),
            fault,
        }
    }

    fn gen_settle(&mut self, rng: &mut Rng) -> Step {
        let inflight: Vec<usize> = self.packets.iter().enumerate().filter(|(_, p)| p.status == PStatus::InFlight).map(|(i, _)| i).collect();
        if inflight.is_empty() {
            return self.gen_transfer(rng);
        }
        let i = *rng.pick(&inflight);
        let p = self.packets[i].clone();
        let (fault, _) = self.gen_fault(rng);
        let now = self.chain.block().time.nanos();
        if now >= p.desc.timeout_ts_nanos && rng.chance(1, 2) {
            return Step::Ibc { msg: IbcSudo::Timeout(p.desc), fault };
        }
        if now < p.desc.timeout_ts_nanos && rng.chance(1, 6) {
            // let it time out: jump the clock onto / around the deadline
            if let Some((dt, dn)) = crate::util::jump_around(rng, now, p.desc.timeout_ts_nanos) {
                return Step::Block { dh: 1, dt, dn };
            }
            return Step::Block { dh: 1, dt: 1, dn: 0 };
        }
        let ok = rng.chance(3, 5);
        Step::Ibc { msg: IbcSudo::Ack { ack: if ok { ack_ok() } else { ack_err() }, packet: p.desc }, fault }
    }

    fn gen_gov(&mut self, rng: &mut Rng) -> Step {
        let admin = self.obs.as_ref().and_then(|o| o.snap.admin.clone());
        let sender = match (&admin, rng.below(10)) {
            (Some(a), 0..=6) => a.clone(),
            _ => rng.pick(&self.users).clone(),
        };
        if rng.chance(1, 6) {
            return Step::Tx { sender, target: "ics20".into(), msg: json!({"update_admin":{"admin": rng.pick(&self.users).clone()}}), funds: vec![], fault: None, script: vec![] };
        }
        let mut cands: Vec<String> = self.tokens.clone();
        cands.push(self.fake_token.clone());
        cands.push(addr_of(&format!("sometoken{}", rng.below(4))));
        let c = rng.pick(&cands).clone();
        let cur = self.obs.as_ref().and_then(|o| o.snap.allowed.iter().find(|a| a.0 == c).map(|a| a.1));
        let dflt = self.obs.as_ref().and_then(|o| o.snap.default_gas_limit);
        let g = match (cur, rng.below(10)) {
            (_, 0) => Value::Null,
            // exactly the configured default (and its neighbours): a listing like any other
            (_, 9) if dflt.is_some() => json!(dflt.unwrap().saturating_add(*rng.pick(&[0u64, 0, 0, 1]))),
            (_, 8) => json!(*rng.pick(&[0u64, 0, 1, u64::MAX])), // explicit zero is a legal limit, not "no limit"
            (Some(Some(x)), 1) => json!(x.saturating_sub(1)),
            (Some(Some(x)), 2) => json!(x),
            (Some(Some(x)), 3) => json!(x.saturating_add(1)),
            _ => json!(rng.range(1, 1_000_000)),
        };
        Step::Tx { sender, target: "ics20".into(), msg: json!({"allow":{"contract": c, "gas_limit": g}}), funds: vec![], fault: None, script: vec![] }
    }
}

impl World for WorldD {
    const NAME: &'static str = "D";

    fn gen_config(rng: &mut Rng, prop: &str, thorough: bool) -> Value {
        let nusers = rng.range(3, 5) as usize;
        let users: Vec<String> = (0..nusers).map(|i| format!("user{}", i)).collect();
        let tokens = rng.range(1, 2) as usize;
        let mut allowlist = vec![];
        for t in 0..tokens {
            if rng.chance(2, 3) {
                allowlist.push(json!({"contract": format!("TOK{}", t), "gas_limit": if rng.chance(1, 2) { json!(rng.range(100_000, 500_000)) } else { Value::Null }}));
            }
        }
        let default_gas = if rng.chance(1, 2) { json!(rng.range(100_000, 300_000)) } else { Value::Null };
        let init = json!({
            "default_timeout": *rng.pick(&[1u64, 10, 100, 3600]),
            "gov_contract": "user0",
            "allowlist": allowlist,
            "default_gas_limit": default_gas,
        });
        let cfg = DCfg {
            users,
            channels: rng.range(1, 3) as usize,
            tokens,
            init,
            malicious: match prop {
                "C11" => rng.chance(3, 4),
                "C12" => rng.chance(1, 5),
                _ => rng.chance(1, 2),
            },
            spb: *rng.pick(&[1u64, 5, 6, 1000]),
            steps: if thorough { rng.range(30, 140) as usize } else { rng.range(20, 80) as usize },
            faults: rng.chance(1, 2),
            migrations: rng.chance(1, 2),
            bulk_allow: if prop == "C20" && rng.chance(2, 3) { rng.range(25, 70) as usize } else { 0 },
            profile: prop.to_string(),
            cp_mode: rng.below(3) as u8,
        };
        serde_json::to_value(cfg).unwrap()
    }

    fn build(config: &Value, prop: &str) -> Self {
        let cfg: DCfg = serde_json::from_value(config.clone()).expect("config");
        let mut chain = Chain::new();
        let users: Vec<String> = cfg.users.iter().map(|u| addr_of(u)).collect();
        let wadmin = addr_of("wasm-admin");
        let fake = chain.instantiate(Kind::Sink, "sink0", &wadmin, &json!({}), vec![], None).expect("sink");
        for u in &users {
            chain.mint(u, NATIVES.iter().map(|d| Coin::new((u64::MAX as u128) * 4, *d)).collect());
        }
        let mut tokens = vec![];
        for t in 0..cfg.tokens {
            let bal: Vec<Value> = users.iter().map(|u| json!({"address": u, "amount": ((u64::MAX as u128) * 4).to_string()})).collect();
            let init = json!({"name": format!("Token {}", t), "symbol": "TOK", "decimals": 6, "initial_balances": bal, "mint": null, "marketing": null});
            if let Ok(a) = chain.instantiate(Kind::Cw20, &format!("tok{}", t), &wadmin, &init, vec![], None) {
                tokens.push(a);
            }
        }
        chain.set_snapper(Box::new(move |kind, _addr, inner, deps, env: &Env| match kind {
            Kind::Ics20 => snap_ics(inner, deps, env),
            _ => Snap::None,
        }));
        let mut lookalikes: Vec<String> = tokens.iter().map(|t| format!("factory/sim/cw20:{}", t)).collect();
        // a bank denom that differs from an ordinary one only by case is a different denom
        lookalikes.push(NATIVES[0].to_uppercase());
        for u in &users {
            chain.mint(u, lookalikes.iter().map(|d| Coin::new(1_000_000_000u128, d.clone())).collect());
        }
        let mut init = cfg.init.clone();
        init["gov_contract"] = json!(addr_of(init["gov_contract"].as_str().unwrap_or("user0")));
        if let Some(a) = init["allowlist"].as_array_mut() {
            for e in a.iter_mut() {
                if let Some(s) = e["contract"].as_str().map(|s| s.to_string()) {
                    if let Some(i) = s.strip_prefix("TOK").and_then(|i| i.parse::<usize>().ok()) {
                        if let Some(t) = tokens.get(i) {
                            e["contract"] = json!(t);
                        }
                    }
                }
            }
            for i in 0..cfg.bulk_allow {
                a.push(json!({"contract": addr_of(&format!("bulktoken{}", i)), "gas_limit": if i % 3 == 0 { Value::Null } else { json!(1000 + i) }}));
            }
        }
        let ics_res = chain.instantiate(Kind::Ics20, "ics20", &wadmin, &init, vec![], Some(wadmin.clone()));
        let (ics, ics_ok) = match ics_res {
            Ok(a) => (a, true),
            Err(_) => (String::new(), false),
        };
        let mut channels = vec![];
        let w_cfg_cp_mode = cfg.cp_mode;
        if ics_ok {
            for i in 0..cfg.channels {
                let id = format!("channel-{}", i);
                // both chains number their channels from 0: collisions between a counterparty's channel id and one
                // of our own ids are the norm, not the exception
                let cp = match w_cfg_cp_mode {
                    0 => format!("channel-{}", i),
                    1 => format!("channel-{}", (i + 1) % cfg.channels.max(1)),
                    _ => format!("channel-9{}", i),
                };
                let m = IbcSudo::Connect {
                    channel_id: id.clone(),
                    port: OUR_PORT.into(),
                    cp_port: THEIR_PORT.into(),
                    cp_channel: cp.clone(),
                    connection_id: "connection-0".into(),
                    version: "ics20-1".into(),
                    ordered: false,
                };
                let r = chain.sudo("ics20", &serde_json::to_value(&m).unwrap(), None);
                if r.ok {
                    channels.push((id, cp));
                }
            }
        }
        let mut w = WorldD {
            cfg,
            prop: prop.to_string(),
            chain,
            meter: Meter::default(),
            users,
            ics,
            ics_ok: ics_ok && !channels.is_empty(),
            tokens,
            lookalikes,
            fake_token: fake,
            channels,
            packets: vec![],
            next_seq: BTreeMap::new(),
            ledger: BTreeMap::new(),
            remote_vouchers: BTreeMap::new(),
            obs: None,
            step_idx: 0,
            pending: vec![],
            prev_allowed: None,
            prev_default_gas: None,
            v1_migrated_without_default: false,
            in_seq: 0,
            rebooked: Default::default(),
            cfg_gov: init["gov_contract"].as_str().unwrap_or("").to_string(),
            last_old_layout_step: None,
        };
        if w.ics_ok {
            w.meter.flag("instantiated");
            let mut pend = vec![];
            w.chain.advance(1, w.cfg.spb);
            w.check_state(false, &mut pend);
            // "the governance address" is the one named at instantiation
            let want = w.cfg_gov.clone();
            let have = w.obs.as_ref().and_then(|o| o.snap.admin.clone());
            if w.on("C18") && have.as_deref() != Some(want.as_str()) {
                w.viol(
                    &mut pend,
                    "C18",
                    "governance-ne-configured",
                    json!({"when": "instantiate"}),
                    format!("instantiated with gov_contract {} but the contract reports governance {:?}", want, have),
                );
            }
            w.pending = pend;
        }
        w
    }

    fn planned_steps(&self) -> usize {
        if self.ics_ok {
            self.cfg.steps
        } else {
            1
        }
    }

    fn gen_step(&mut self, rng: &mut Rng) -> Step {
        if !self.ics_ok {
            return Step::Block { dh: 1, dt: self.cfg.spb, dn: 0 };
        }
        // transfer, receive, settle, gov, migrate, block
        let w: [u32; 6] = match self.cfg.profile.as_str() {
            "C18" => [22, 14, 14, 32, 6, 12],
            "C11" => [26, 30, 22, 6, 2, 14],
            _ => [26, 24, 22, 8, 6, 14],
        };
        match rng.weighted(&w) {
            0 => self.gen_transfer(rng),
            1 => self.gen_receive(rng),
            2 => self.gen_settle(rng),
            3 => self.gen_gov(rng),
            4 if self.cfg.migrations => {
                let sc = *rng.pick(&["same", "same_with_default", "v1", "v1_with_default", "v2", "v2_with_default"]);
                let msg = if sc.ends_with("with_default") { json!({"default_gas_limit": rng.range(100_000, 400_000)}) } else { json!({"default_gas_limit": null}) };
                let base = sc.split('_').next().unwrap();
                // any release of that era: the version string only selects which conversions run
                let scen = match base {
                    // (0.10.0 is older than the oldest version the contract agrees to migrate from, 9.9.9 newer than itself:
                    // both must be refused and leave everything as it was)
                    "v1" => format!("v1:{}", rng.pick(&["0.11.1", "0.11.1", "0.12.0-alpha1", "0.11.1", "0.10.0"])),
                    "v2" => format!("v2:{}", rng.pick(&["0.13.0", "0.12.0", "0.12.1", "0.13.0", "0.12.0", "9.9.9"])),
                    o => o.to_string(),
                };
                Step::Migrate { target: "ics20".into(), msg, scenario: Some(scen) }
            }
            _ => {
                let dh = *rng.pick(&[1u64, 1, 1, 2, 5, 100]);
                Step::Block { dh, dt: dh.saturating_mul(self.cfg.spb), dn: crate::util::subsecond(rng) }
            }
        }
    }

    fn apply(&mut self, step: &Step, out: &mut Vec<Violation>) {
        if !self.pending.is_empty() {
            let p = std::mem::take(&mut self.pending);
            out.extend(p);
        }
        match step {
            Step::Tx { sender, target, msg, funds, fault, script } => {
                if self.ics_ok && self.chain.contracts.contains_key(target) {
                    let r = self.chain.exec(sender, target, msg, coins(funds), fault.clone(), script);
                    let evs = self.chain.events(&r);
                    if !r.ok {
                        self.meter.flag("tx_failed");
                        self.meter.token("tx", "any", "failed", 0);
                    }
                    self.check_frames(&evs, &r, None, out);
                    self.collect_packets(&evs, &r);
                    self.check_state(!r.ok, out);
                }
            }
            Step::Ibc { msg, fault } => self.apply_ibc(msg, fault, out),
            Step::Block { dh, dt, dn } => {
                self.chain.advance_ns(*dh, *dt, *dn);
                self.meter.sim_blocks += dh;
                self.meter.sim_seconds += dt;
            }
            Step::Migrate { msg, scenario, .. } => {
                if self.ics_ok {
                    let wadmin = addr_of("wasm-admin");
                    let full = scenario.clone().unwrap_or_default();
                    let (sc, ver_from) = match full.split_once(':') {
                        Some((a, b)) => (a.to_string(), Some(b.to_string())),
                        None => (full.clone(), None),
                    };
                    let cw2 = |v: &str| -> Binary { format!("{{\"contract\":\"crates.io:cw20-ics20\",\"version\":\"{}\"}}", v).into_bytes().into() };
                    let mut undo: Vec<(Binary, Option<Binary>)> = vec![];
                    let mut v1_gov: Option<String> = None;
                    if sc == "v1" {
                        // rewrite storage into the pre-allow-list layout: old Config{default_timeout, gov_contract},
                        // no ADMIN item, no ALLOW_LIST, cw2 version of that era
                        let dump = self.chain.dump("ics20");
                        let get = |k: &[u8]| dump.iter().find(|(kk, _)| kk.as_slice() == k).map(|(_, v)| Binary::from(v.clone()));
                        let obs = self.obs.clone();
                        let gov = obs.as_ref().and_then(|o| o.snap.admin.clone()).unwrap_or(self.users[0].clone());
                        v1_gov = Some(gov.clone());
                        self.last_old_layout_step = Some(self.step_idx);
                        let dt = obs.as_ref().map(|o| o.snap.default_timeout).unwrap_or(100);
                        let mut ops: Vec<(Binary, Option<Binary>)> = vec![];
                        let cfgk = rawkeys::item_key("ics20_config");
                        undo.push((cfgk.clone().into(), get(&cfgk)));
                        ops.push((cfgk.into(), Some(format!("{{\"default_timeout\":{},\"gov_contract\":\"{}\"}}", dt, gov).into_bytes().into())));
                        let ak = rawkeys::item_key("admin");
                        undo.push((ak.clone().into(), get(&ak)));
                        ops.push((ak.into(), None));
                        for (k, v) in rawkeys::entries(&dump, "allow_list") {
                            let fk = rawkeys::map_key("allow_list", &k);
                            undo.push((fk.clone().into(), Some(v.into())));
                            ops.push((fk.into(), None));
                        }
                        let vk = rawkeys::item_key("contract_info");
                        undo.push((vk.clone().into(), get(&vk)));
                        ops.push((vk.into(), Some(cw2(ver_from.as_deref().unwrap_or("0.11.1")))));
                        self.unbook_in_flight(&dump, &mut ops, &mut undo);
                        self.chain.sudo("ics20", &json!({"__surgery": ops}), None);
                    }
                    if sc == "v2" {
                        // 0.12.0 .. 0.13.0: current config layout, but in-flight sends not yet in the books
                        let dump = self.chain.dump("ics20");
                        let get = |k: &[u8]| dump.iter().find(|(kk, _)| kk.as_slice() == k).map(|(_, v)| Binary::from(v.clone()));
                        let mut ops: Vec<(Binary, Option<Binary>)> = vec![];
                        let vk = rawkeys::item_key("contract_info");
                        undo.push((vk.clone().into(), get(&vk)));
                        ops.push((vk.into(), Some(cw2(ver_from.as_deref().unwrap_or("0.13.0")))));
                        self.unbook_in_flight(&dump, &mut ops, &mut undo);
                        self.chain.sudo("ics20", &json!({"__surgery": ops}), None);
                    }
                    let r = self.chain.migrate(&wadmin, "ics20", msg);
                    let evs = self.chain.events(&r);
                    self.meter.token("migrate", &sc, if r.ok { "ok" } else { "failed" }, 0);
                    if r.ok {
                        if sc == "v2" {
                            self.meter.hit("migrated_from_v2_books");
                        }
                        if sc == "v1" {
                            self.meter.hit("migrated_from_pre_allow_list_layout");
                        }
                        if sc == "v1" || sc == "v2" {
                            // did the migration book tokens the contract merely held (failed refunds) as outstanding?
                            if let (Some(pre), Some(post)) = (self.obs.clone(), self.observe()) {
                                for b in &post.snap.books {
                                    let pre_out = Self::outstanding(&pre, &b.0, &b.1);
                                    let pre_sum: u128 = pre.snap.books.iter().filter(|x| x.1 == b.1).map(|x| x.2).sum();
                                    let held = pre.bal.get(&(self.ics.clone(), b.1.clone())).cloned().unwrap_or(0);
                                    let surplus = held.saturating_sub(pre_sum);
                                    if surplus > 0 && b.2 == pre_out + surplus {
                                        self.rebooked.insert((b.0.clone(), b.1.clone()));
                                        self.meter.hit("old_version_migration_rebooked_contract_surplus");
                                    }
                                }
                            }
                            if let Some(g) = &v1_gov {
                                // the old layout named its governance contract: that address governs after the upgrade
                                let have = self.observe().and_then(|o| o.snap.admin);
                                if self.on("C18") && have.as_deref() != Some(g.as_str()) {
                                    self.viol(
                                        out,
                                        "C18",
                                        "governance-ne-configured",
                                        json!({"when": "migrate_from_pre_allow_list_layout"}),
                                        format!("the old configuration named gov_contract {}, after the migration the contract reports governance {:?}", g, have),
                                    );
                                }
                            }
                            if sc == "v1" {
                                // the past was different: restart the C18 monotonicity baseline
                                self.prev_allowed = None;
                                self.prev_default_gas = None;
                                if msg["default_gas_limit"].is_null() {
                                    self.v1_migrated_without_default = true;
                                }
                            }
                            let outstanding_cw20 = self.obs.as_ref().map(|o| o.snap.books.iter().any(|b| b.1.starts_with("cw20:") && b.2 > 0)).unwrap_or(false);
                            if outstanding_cw20 {
                                self.meter.hit("v1_migration_with_cw20_outstanding");
                            }
                        } else {
                            self.meter.hit("migrated_same_version");
                        }
                        // C18: a default gas limit named by the (successful) migration is the default from now on
                        if let Some(want) = msg["default_gas_limit"].as_u64() {
                            let have = self.observe().and_then(|o| o.snap.default_gas_limit);
                            if self.on("C18") && have != Some(want) {
                                self.viol(
                                    out,
                                    "C18",
                                    "migrate-default-gas-limit-not-applied",
                                    json!({}),
                                    format!("migrate set default_gas_limit {}, the contract reports {:?}", want, have),
                                );
                            }
                        }
                        self.check_frames(&evs, &r, None, out);
                        self.check_state(false, out);
                    } else {
                        // not a supported path (e.g. several channels open): put the storage back
                        if !undo.is_empty() {
                            self.chain.sudo("ics20", &json!({"__surgery": undo}), None);
                        }
                        self.meter.hit("migration_refused");
                        self.check_state(true, out);
                    }
                }
            }
            Step::Quiesce => {
                self.quiesce(out);
                self.probe_c20(true, out);
            }
            _ => {}
        }
        if self.on("C20") {
            let every = if self.cfg.profile == "C20" { 9 } else { 30 };
            if self.step_idx % every == every - 1 {
                self.probe_c20(self.cfg.profile == "C20", out);
            }
        }
        self.step_idx += 1;
    }

    fn chain(&self) -> &Chain {
        &self.chain
    }

    fn meter(&self) -> &Meter {
        &self.meter
    }

    fn nontrivial(&self, prop: &str) -> bool {
        let f = &self.meter.nontrivial_flags;
        if !f.contains("instantiated") {
            return false;
        }
        match prop {
            "C11" => f.contains("transfer_ok") && (f.contains("recv_success_ack") || f.contains("recv_error_ack")) && (f.contains("ack_error") || f.contains("timeout_handled")),
            "C12" => f.contains("transfer_ok") && f.contains("recv_success_ack") && f.contains("recv_error_ack"),
            "C18" => f.contains("allow_ok") && f.contains("transfer_ok"),
            "C20" => f.contains("c20_probed"),
            _ => f.len() > 2,
        }
    }
}

impl WorldD {
    /// settle every in-flight packet with faults off, then compare with the honest remote ledger
    fn quiesce(&mut self, out: &mut Vec<Violation>) {
        if !self.ics_ok || !(self.on("C12") || self.on("C11")) {
            return;
        }
        // governance makes sure every real token with outstanding balance can be paid out
        if let Some(adm) = self.obs.as_ref().and_then(|o| o.snap.admin.clone()) {
            for t in self.tokens.clone() {
                let listed = self.obs.as_ref().map(|o| o.snap.allowed.iter().any(|a| a.0 == t)).unwrap_or(false);
                if !listed {
                    let s = Step::Tx { sender: adm.clone(), target: "ics20".into(), msg: json!({"allow":{"contract": t, "gas_limit": null}}), funds: vec![], fault: None, script: vec![] };
                    self.apply(&s, out);
                }
            }
        }
        let inflight: Vec<PacketDesc> = self.packets.iter().filter(|p| p.status == PStatus::InFlight).map(|p| p.desc.clone()).collect();
        for d in inflight {
            let fake = self.packets.iter().find(|p| p.desc == d).map(|p| self.token_kind(&p.denom) == "fake-cw20").unwrap_or(false);
            if fake {
                continue;
            }
            let before = self.packets.iter().filter(|p| p.status == PStatus::InFlight).count();
            self.apply_ibc(&IbcSudo::Ack { ack: ack_ok(), packet: d }, &None, out);
            if !out.is_empty() {
                return;
            }
            let after = self.packets.iter().filter(|p| p.status == PStatus::InFlight).count();
            if after + 1 != before {
                self.viol(out, "C12", "ack-not-handled-at-quiescence", json!({}), "a success acknowledgement could not be handled with faults off".into());
                return;
            }
        }
        if !self.cfg.malicious {
            let obs = match self.obs.clone() {
                Some(o) => o,
                None => return,
            };
            for ((ch, d), v) in self.remote_vouchers.clone() {
                if self.token_kind(&d) == "fake-cw20" {
                    continue;
                }
                let o = Self::outstanding(&obs, &ch, &d);
                if o != v {
                    self.viol(
                        out,
                        "C12",
                        "outstanding-ne-remote-voucher-supply",
                        json!({
                            "after_v1_migration_without_default_gas": self.v1_migrated_without_default,
                            "old_version_migration_rebooked_contract_surplus": self.rebooked.contains(&(ch.clone(), d.clone())),
                        }),
                        format!("channel {} denom {}: outstanding {} but the honest remote chain holds {} vouchers", ch, d, o, v),
                    );
                    return;
                }
            }
            self.meter.hit("quiescence_books_match_remote_vouchers");
        }
    }
}

fn p_desc(p: &crate::contracts::PacketDesc) -> String {
    format!("packet seq {} on {}", p.sequence, p.src_channel)
}

#[allow(dead_code)]
fn unused(_: Timestamp, _: Frame) {}
