//! World B — proxies: cw1-whitelist and cw1-subkeys, bank, recording staking/distribution/gov/ibc/stargate
//! modules, Sinks. Monitors C07, C08, C16, C17 and the cw1-subkeys part of C20.
use std::collections::BTreeMap;

use cosmwasm_std::{
    AnyMsg, BankMsg, Binary, Coin, CosmosMsg, DistributionMsg, Env, GovMsg, IbcMsg, IbcTimeout, ReplyOn, StakingMsg,
    Timestamp, Uint128, VoteOption, WasmMsg,
};
use cw_utils::Expiration;
use serde::{Deserialize, Serialize};
use serde_json::{json, Value};

use crate::chain::{Chain, Entry, Event, Fault, FaultMode, Frame, Kind, ModMsg, SinkAct, TxResult};
use crate::paging::{check_paging, check_stale_cursors, LIMITS};
use crate::rawkeys;
use crate::snaps::{norm_coins, snap_cw1, Cw1Snap, Snap};
use crate::trace::{coins, Step, Violation};
use crate::util::{addr_of, Fnv, Rng};
use crate::world::{bucket, Meter, World};
use crate::world_a::expired;

const DENOMS: [&str; 3] = ["ua", "ub", "uc"];

#[derive(Serialize, Deserialize, Clone, Debug)]
pub struct BCfg {
    pub users: Vec<String>,
    pub wl_admins: Vec<String>,
    pub wl_mutable: bool,
    pub sk_admins: Vec<String>,
    pub sk_mutable: bool,
    pub bulk: usize,
    pub spb: u64,
    pub steps: usize,
    pub faults: bool,
    pub profile: String,
}

pub struct WorldB {
    cfg: BCfg,
    prop: String,
    pub chain: Chain,
    pub meter: Meter,
    users: Vec<String>,
    sinks: Vec<String>,
    universe: Vec<String>,
    bulk_addrs: Vec<String>,
    wl: String,
    sk: String,
    step_idx: usize,
    pending: Vec<Violation>,
    last: BTreeMap<String, Cw1Snap>,
    frozen_list: BTreeMap<String, Vec<String>>,
    granted: BTreeMap<(String, String), u128>,
    relayed: BTreeMap<(String, String), u128>,
    deadlines_h: Vec<u64>,
    deadlines_t: Vec<u64>,
    queue: std::collections::VecDeque<Step>,
    multi_denom_done: u32,
    /// admin sets as the history of successful UpdateAdmins requests defines them (request model)
    model_admins: BTreeMap<String, std::collections::BTreeSet<String>>,
    /// subkey allowances as the history of successful admin grants and own spends defines them (request model)
    model_allow: BTreeMap<String, (BTreeMap<String, u128>, Expiration)>,
}

fn cm(v: &CosmosMsg) -> Value {
    serde_json::to_value(v).unwrap()
}

impl WorldB {
    fn on(&self, p: &str) -> bool {
        self.prop == "ALL" || self.prop == p
    }

    fn viol(&self, out: &mut Vec<Violation>, prop: &str, class: &str, facts: Value, detail: String) {
        if self.on(prop) {
            let mut v = Violation::new(prop, &format!("{}/{}", prop, class), facts, detail);
            v.step = self.step_idx;
            out.push(v);
        }
    }

    fn idx(&self, a: &str) -> Option<usize> {
        self.universe.iter().position(|x| x == a)
    }

    fn role(&self, proxy: &str, a: &str) -> &'static str {
        let label = if proxy == self.wl { "wl" } else { "sk" };
        if let Some(s) = self.last.get(label) {
            if s.admins.iter().any(|x| x == a) {
                return "admin";
            }
            if let Some(i) = self.idx(a) {
                if s.allow.get(i).map(|x| !x.0.is_empty()).unwrap_or(false) || s.perms.get(i).map(|p| p.0 || p.1 || p.2 || p.3).unwrap_or(false) {
                    return "subkey";
                }
            }
        }
        if self.sinks.iter().any(|x| x == a) {
            "sink"
        } else {
            "stranger"
        }
    }

    fn snap_now(&self, label: &str) -> Option<Cw1Snap> {
        let mut s = Cw1Snap::default();
        let a: cw1_whitelist::msg::AdminListResponse = self.chain.query(label, &json!({"admin_list":{}})).ok()?;
        s.admins = a.admins;
        s.mutable = a.mutable;
        s.ok = true;
        if label == "sk" {
            for u in &self.universe {
                let al: cw1_subkeys::state::Allowance = self.chain.query(label, &json!({"allowance":{"spender":u}})).ok()?;
                let pe: cw1_subkeys::state::Permissions = self.chain.query(label, &json!({"permissions":{"spender":u}})).ok()?;
                s.allow.push((norm_coins(&al.balance.0), al.expires));
                s.perms.push((pe.delegate, pe.redelegate, pe.undelegate, pe.withdraw));
            }
            let chain = &self.chain;
            s.listed_allow = crate::snaps::page_keys(&|cur| {
                chain
                    .query::<cw1_subkeys::msg::AllAllowancesResponse>(label, &json!({"all_allowances":{"start_after":cur,"limit":30}}))
                    .ok()
                    .map(|r| r.allowances.into_iter().map(|a| a.spender).collect())
            });
            s.listed_perms = crate::snaps::page_keys(&|cur| {
                chain
                    .query::<cw1_subkeys::msg::AllPermissionsResponse>(label, &json!({"all_permissions":{"start_after":cur,"limit":30}}))
                    .ok()
                    .map(|r| r.permissions.into_iter().map(|a| a.spender).collect())
            });
        }
        Some(s)
    }

    // ---------------------------------------------------------------- oracles

    /// is every message covered by the caller's grants (subkeys, non-admin)? returns per-denom relayed vector
    fn covered(&self, pre: &Cw1Snap, sender: &str, msgs: &[CosmosMsg], block: &cosmwasm_std::BlockInfo) -> (bool, BTreeMap<String, u128>) {
        let mut sent: BTreeMap<String, u128> = BTreeMap::new();
        // a caller outside the observed universe (e.g. the proxy calling itself) holds no grants at all;
        // an empty message list is vacuously covered
        let (allow, exp) = self.idx(sender).and_then(|i| pre.allow.get(i).cloned()).unwrap_or_default();
        let perms = self.idx(sender).and_then(|i| pre.perms.get(i).cloned()).unwrap_or_default();
        let mut remaining: BTreeMap<String, u128> = allow.iter().map(|c| (c.denom.clone(), c.amount.u128())).collect();
        let unexpired = !expired(&exp, block);
        for m in msgs {
            match m {
                CosmosMsg::Bank(BankMsg::Send { amount, .. }) => {
                    if !unexpired {
                        return (false, sent);
                    }
                    for c in amount {
                        let r = remaining.entry(c.denom.clone()).or_insert(0);
                        if *r < c.amount.u128() {
                            return (false, sent);
                        }
                        *r -= c.amount.u128();
                        *sent.entry(c.denom.clone()).or_insert(0) += c.amount.u128();
                    }
                }
                CosmosMsg::Staking(StakingMsg::Delegate { .. }) if perms.0 => {}
                CosmosMsg::Staking(StakingMsg::Redelegate { .. }) if perms.1 => {}
                CosmosMsg::Staking(StakingMsg::Undelegate { .. }) if perms.2 => {}
                CosmosMsg::Distribution(DistributionMsg::SetWithdrawAddress { .. }) if perms.3 => {}
                CosmosMsg::Distribution(DistributionMsg::WithdrawDelegatorReward { .. }) if perms.3 => {}
                _ => return (false, sent),
            }
        }
        (true, sent)
    }

    fn check_frames(&mut self, evs: &[Event], r: &TxResult, out: &mut Vec<Violation>) {
        for proxy in [self.wl.clone(), self.sk.clone()] {
            if proxy.is_empty() {
                continue;
            }
            let is_sk = proxy == self.sk;
            let mut expected: Vec<String> = vec![];
            let mut observed: Vec<String> = vec![];
            for ev in evs {
                match ev {
                    Event::Module(me) if me.sender == proxy => {
                        let c: CosmosMsg = match &me.msg {
                            ModMsg::Bank(b) => CosmosMsg::Bank(b.clone()),
                            ModMsg::Staking(b) => CosmosMsg::Staking(b.clone()),
                            ModMsg::Distribution(b) => CosmosMsg::Distribution(b.clone()),
                            ModMsg::Gov(b) => CosmosMsg::Gov(b.clone()),
                            ModMsg::Ibc(b) => CosmosMsg::Ibc(b.clone()),
                            ModMsg::Stargate(b) => CosmosMsg::Any(b.clone()),
                        };
                        observed.push(serde_json::to_string(&c).unwrap());
                    }
                    Event::Frame(f) if f.sender == proxy && f.entry == Entry::Execute => {
                        let c: CosmosMsg = CosmosMsg::Wasm(WasmMsg::Execute {
                            contract_addr: f.addr.clone(),
                            msg: Binary::from(f.msg.clone()),
                            funds: f.funds.clone(),
                        });
                        observed.push(serde_json::to_string(&c).unwrap());
                    }
                    _ => {}
                }
                let f = match ev {
                    Event::Frame(f) if f.addr == proxy && f.entry == Entry::Execute => f,
                    _ => continue,
                };
                let (pre, post) = match (f.pre.cw1(), f.post.cw1()) {
                    (Some(a), Some(b)) if a.ok && b.ok => (a.clone(), b.clone()),
                    _ => continue,
                };
                let resp = match f.outcome.response() {
                    Some(r) => r.clone(),
                    None => {
                        self.meter.flag("proxy_refused");
                        continue;
                    }
                };
                let committed = r.ok && f.outcome.is_ok();
                if f.outcome.is_ok() {
                    for sm in &resp.messages {
                        match &sm.msg {
                            CosmosMsg::Wasm(WasmMsg::Execute { contract_addr, funds, .. }) => {
                                expected.push(serde_json::to_string(&sm.msg).unwrap());
                                if !funds.is_empty() {
                                    let b: CosmosMsg = CosmosMsg::Bank(BankMsg::Send { to_address: contract_addr.clone(), amount: funds.clone() });
                                    expected.push(serde_json::to_string(&b).unwrap());
                                }
                            }
                            CosmosMsg::Wasm(_) => {}
                            other => expected.push(serde_json::to_string(other).unwrap()),
                        }
                    }
                }
                self.check_proxy_frame(is_sk, f, &pre, &post, &resp, committed, out);
            }
            if r.ok {
                expected.sort();
                observed.sort();
                if expected != observed {
                    self.viol(
                        out,
                        "C07",
                        "dispatch-mismatch",
                        json!({"expected": expected.len(), "observed": observed.len()}),
                        format!("messages leaving the proxy: {} expected from its Responses, {} observed", expected.len(), observed.len()),
                    );
                }
            }
        }
    }

    #[allow(clippy::too_many_arguments)]
    fn check_proxy_frame(
        &mut self,
        is_sk: bool,
        f: &Frame,
        pre: &Cw1Snap,
        post: &Cw1Snap,
        resp: &cosmwasm_std::Response,
        committed: bool,
        out: &mut Vec<Violation>,
    ) {
        let v: Value = match cosmwasm_std::from_json(&f.msg) {
            Ok(v) => v,
            Err(_) => return,
        };
        let kind = v.as_object().and_then(|o| o.keys().next().cloned()).unwrap_or_default();
        let is_admin = pre.admins.iter().any(|a| *a == f.sender);
        let role = if is_admin {
            "admin"
        } else {
            self.role(&f.addr, &f.sender)
        };
        let n = self.universe.len();
        let si = self.idx(&f.sender);
        // expected post tables (subkeys)
        let mut exp_allow = pre.allow.clone();
        let mut exp_perms = pre.perms.clone();
        let mut allow_alt: Option<Vec<(Vec<Coin>, Expiration)>> = None;
        let mut check_expiry_of: Option<usize> = None;
        match kind.as_str() {
            "execute" => {
                let msgs: Vec<CosmosMsg> = serde_json::from_value(v["execute"]["msgs"].clone()).unwrap_or_default();
                // C07: authority
                let (cov, sent) = if is_admin {
                    (true, BTreeMap::new())
                } else if is_sk {
                    self.covered(pre, &f.sender, &msgs, &f.block)
                } else {
                    (false, BTreeMap::new())
                };
                if is_admin && !msgs.is_empty() {
                    if let Some(ma) = self.model_admins.get(&f.addr) {
                        if !ma.contains(&f.sender) && !(is_sk && self.covered(pre, &f.sender, &msgs, &f.block).0) {
                            self.viol(
                                out,
                                "C07",
                                "relayed-for-caller-removed-from-admins",
                                json!({"subkeys": is_sk}),
                                format!("Execute by {} relayed {} messages; by the history of successful UpdateAdmins calls it is no longer an admin", f.sender, msgs.len()),
                            );
                        }
                    }
                }
                if !cov {
                    self.viol(
                        out,
                        "C07",
                        "relayed-without-authority",
                        json!({"subkeys": is_sk, "role": role}),
                        format!("Execute by {} with {} messages succeeded although the caller's grants do not cover them", role, msgs.len()),
                    );
                }
                // C07: exactly the submitted messages
                let got: Vec<CosmosMsg> = resp.messages.iter().map(|s| s.msg.clone()).collect();
                let plain = resp.messages.iter().all(|s| s.reply_on == ReplyOn::Never && s.gas_limit.is_none());
                if got != msgs || !plain {
                    self.viol(
                        out,
                        "C07",
                        "relayed-messages-differ",
                        json!({"subkeys": is_sk}),
                        format!("Execute relayed {} messages, {} were submitted (or reply/gas limit set)", got.len(), msgs.len()),
                    );
                }
                // C07 (request model): what admins granted, minus what was spent, must cover every relayed send and
                // must not have expired — independently of what the contract currently believes
                if is_sk && !is_admin {
                    let mut total: BTreeMap<String, u128> = BTreeMap::new();
                    for m in &msgs {
                        if let CosmosMsg::Bank(BankMsg::Send { amount, .. }) = m {
                            for c in amount {
                                *total.entry(c.denom.clone()).or_insert(0) += c.amount.u128();
                            }
                        }
                    }
                    let has_send = msgs.iter().any(|m| matches!(m, CosmosMsg::Bank(BankMsg::Send { .. })));
                    if has_send {
                        let entry = self.model_allow.get(&f.sender).cloned();
                        let ok_model = match &entry {
                            Some((bal, e)) => !expired(e, &f.block) && total.iter().all(|(d, a)| bal.get(d).cloned().unwrap_or(0) >= *a),
                            None => false,
                        };
                        if !ok_model {
                            self.viol(
                                out,
                                "C07",
                                "relayed-beyond-granted-allowance",
                                json!({"model_entry_present": entry.is_some(), "model_expired": entry.as_ref().map(|e| expired(&e.1, &f.block))}),
                                format!("subkey relayed bank sends totalling {:?}; by the history of grants and spends its allowance is {:?}", total, entry),
                            );
                        }
                        if committed {
                            if let Some((bal, _)) = self.model_allow.get_mut(&f.sender) {
                                for (d, a) in &total {
                                    let e = bal.entry(d.clone()).or_insert(0);
                                    *e = e.saturating_sub(*a);
                                }
                                bal.retain(|_, v| *v != 0);
                            }
                        }
                    }
                }
                // C08: deduction
                if is_sk && !is_admin {
                    // everything the call relays in bank sends, whether covered or not
                    let mut sent: BTreeMap<String, u128> = BTreeMap::new();
                    for m in &msgs {
                        if let CosmosMsg::Bank(BankMsg::Send { amount, .. }) = m {
                            for c in amount {
                                let e = sent.entry(c.denom.clone()).or_insert(0);
                                *e = e.saturating_add(c.amount.u128());
                            }
                        }
                    }
                    if let Some(i) = si {
                        let mut rem: BTreeMap<String, u128> = pre.allow[i].0.iter().map(|c| (c.denom.clone(), c.amount.u128())).collect();
                        let mut ok = !expired(&pre.allow[i].1, &f.block) || sent.is_empty();
                        for (d, a) in &sent {
                            let r = rem.entry(d.clone()).or_insert(0);
                            if *r < *a {
                                ok = false;
                            } else {
                                *r -= *a;
                            }
                        }
                        if !sent.is_empty() && (!ok || !cov) {
                            // the allowance as the contract itself reports it (expired ones read empty) does not cover the sends
                            self.viol(
                                out,
                                "C08",
                                "spend-beyond-unexpired-allowance",
                                json!({"reported_allowance_empty": pre.allow[i].0.is_empty()}),
                                format!("subkey relayed {:?} while its reported (unexpired) allowance was {:?}", sent, pre.allow[i]),
                            );
                        }
                        if !sent.is_empty() || cov {
                            exp_allow[i].0 = rem.into_iter().filter(|(_, a)| *a != 0).map(|(d, a)| Coin::new(a, d)).collect();
                        }
                        if !sent.is_empty() {
                            check_expiry_of = Some(i);
                            self.meter.flag("subkey_spend_ok");
                            if exp_allow[i].0.is_empty() {
                                self.meter.hit("subkey_spent_allowance_to_zero");
                            }
                        }
                        if committed {
                            for (d, a) in &sent {
                                let k = (f.sender.clone(), d.clone());
                                let e = self.relayed.entry(k.clone()).or_insert(0);
                                *e = e.saturating_add(*a);
                                let g = self.granted.get(&k).cloned().unwrap_or(0);
                                if *e > g {
                                    let (ev, gv) = (*e, g);
                                    self.viol(
                                        out,
                                        "C08",
                                        "cumulative-spend-exceeds-grants",
                                        json!({}),
                                        format!("subkey has relayed {} {} but was only ever granted {}", ev, d, gv),
                                    );
                                }
                            }
                        }
                    }
                } else if is_sk && is_admin {
                    // admins are not charged; an implementation that also deducted an admin's own
                    // allowance would still respect the property
                    if let Some(i) = si {
                        let mut sent: BTreeMap<String, u128> = BTreeMap::new();
                        for m in &msgs {
                            if let CosmosMsg::Bank(BankMsg::Send { amount, .. }) = m {
                                for c in amount {
                                    *sent.entry(c.denom.clone()).or_insert(0) += c.amount.u128();
                                }
                            }
                        }
                        let mut rem: BTreeMap<String, u128> = pre.allow[i].0.iter().map(|c| (c.denom.clone(), c.amount.u128())).collect();
                        let mut fits = true;
                        for (d, a) in &sent {
                            let r = rem.entry(d.clone()).or_insert(0);
                            if *r < *a {
                                fits = false;
                            } else {
                                *r -= *a;
                            }
                        }
                        if fits {
                            let mut alt = exp_allow.clone();
                            alt[i].0 = rem.into_iter().filter(|(_, a)| *a != 0).map(|(d, a)| Coin::new(a, d)).collect();
                            allow_alt = Some(alt);
                        }
                    }
                }
                if committed {
                    self.meter.flag("execute_ok");
                }
                self.meter.token("execute", role, if committed { "committed" } else { "rolled-back" }, msgs.len() as u64);
            }
            "increase_allowance" | "decrease_allowance" => {
                let body = &v[kind.as_str()];
                let spender = body["spender"].as_str().unwrap_or("").to_string();
                let coin: Option<Coin> = serde_json::from_value(body["amount"].clone()).ok();
                let exp: Option<Expiration> = serde_json::from_value(body["expires"].clone()).ok().flatten();
                if !is_admin {
                    self.viol(
                        out,
                        "C17",
                        "allowance-changed-by-non-admin",
                        json!({"call": kind}),
                        format!("{} by {} succeeded", kind, role),
                    );
                }
                if let (Some(i), Some(c)) = (self.idx(&spender), coin) {
                    let mut m: BTreeMap<String, u128> = pre.allow[i].0.iter().map(|c| (c.denom.clone(), c.amount.u128())).collect();
                    if kind == "increase_allowance" {
                        let e = m.entry(c.denom.clone()).or_insert(0);
                        *e = e.saturating_add(c.amount.u128());
                        if committed {
                            let g = self.granted.entry((spender.clone(), c.denom.clone())).or_insert(0);
                            *g = g.saturating_add(c.amount.u128());
                        }
                    } else {
                        let e = m.entry(c.denom.clone()).or_insert(0);
                        *e = e.saturating_sub(c.amount.u128());
                    }
                    exp_allow[i].0 = m.into_iter().filter(|(_, a)| *a != 0).map(|(d, a)| Coin::new(a, d)).collect();
                    if let Some(e) = exp {
                        if !exp_allow[i].0.is_empty() {
                            exp_allow[i].1 = e;
                        }
                    }
                    check_expiry_of = Some(i);
                    match exp {
                        Some(Expiration::AtHeight(h)) => self.deadlines_h.push(h),
                        Some(Expiration::AtTime(t)) => self.deadlines_t.push(t.nanos()),
                        _ => {}
                    }
                }
                if committed {
                    self.meter.flag("allowance_change_ok");
                    if let Some(c) = serde_json::from_value::<Coin>(body["amount"].clone()).ok() {
                        let prev = self.model_allow.get(&spender).cloned();
                        if kind == "increase_allowance" {
                            let mut cur = match &prev {
                                Some((b, e)) if !expired(e, &f.block) => (b.clone(), *e),
                                _ => (BTreeMap::new(), Expiration::Never {}),
                            };
                            if let Some(e) = exp {
                                cur.1 = e;
                            }
                            let a = cur.0.entry(c.denom.clone()).or_insert(0);
                            *a = a.saturating_add(c.amount.u128());
                            cur.0.retain(|_, v| *v != 0);
                            self.model_allow.insert(spender.clone(), cur);
                        } else if let Some((b, e)) = prev {
                            let mut cur = (b, e);
                            if let Some(e2) = exp {
                                cur.1 = e2;
                            }
                            let a = cur.0.entry(c.denom.clone()).or_insert(0);
                            *a = a.saturating_sub(c.amount.u128());
                            cur.0.retain(|_, v| *v != 0);
                            if cur.0.is_empty() {
                                self.model_allow.remove(&spender);
                            } else {
                                self.model_allow.insert(spender.clone(), cur);
                            }
                        }
                    }
                }
                self.meter.token(&kind, role, if committed { "committed" } else { "rolled-back" }, 0);
            }
            "set_permissions" => {
                let spender = v["set_permissions"]["spender"].as_str().unwrap_or("").to_string();
                let p: cw1_subkeys::state::Permissions = serde_json::from_value(v["set_permissions"]["permissions"].clone()).unwrap_or_default();
                if !is_admin {
                    self.viol(out, "C17", "permissions-changed-by-non-admin", json!({}), format!("SetPermissions by {} succeeded", role));
                }
                if let Some(i) = self.idx(&spender) {
                    exp_perms[i] = (p.delegate, p.redelegate, p.undelegate, p.withdraw);
                }
                self.meter.token("set_permissions", role, if committed { "committed" } else { "rolled-back" }, 0);
            }
            "update_admins" => {
                let want: Vec<String> = serde_json::from_value(v["update_admins"]["admins"].clone()).unwrap_or_default();
                if !is_admin || !pre.mutable {
                    self.viol(
                        out,
                        "C17",
                        "update-admins-improper",
                        json!({"by_admin": is_admin, "mutable": pre.mutable}),
                        format!("UpdateAdmins by {} succeeded (mutable: {})", role, pre.mutable),
                    );
                }
                let as_set = |v: &Vec<String>| v.iter().cloned().collect::<std::collections::BTreeSet<String>>();
                if as_set(&post.admins) != as_set(&want) || post.mutable != pre.mutable {
                    self.viol(out, "C17", "update-admins-result", json!({}), format!("admin list is {:?}, submitted {:?}", post.admins, want));
                }
                if committed {
                    self.meter.flag("admins_updated");
                    if is_admin && pre.mutable {
                        self.model_admins.insert(f.addr.clone(), want.iter().cloned().collect());
                    }
                }
                self.meter.token("update_admins", role, if committed { "committed" } else { "rolled-back" }, want.len() as u64);
            }
            "freeze" => {
                if !is_admin || !pre.mutable {
                    self.viol(
                        out,
                        "C17",
                        "freeze-improper",
                        json!({"by_admin": is_admin, "mutable": pre.mutable}),
                        format!("Freeze by {} succeeded (mutable: {})", role, pre.mutable),
                    );
                }
                if post.mutable || post.admins != pre.admins {
                    self.viol(out, "C17", "freeze-result", json!({}), "Freeze did not leave an immutable, unchanged list".into());
                }
                if committed {
                    self.meter.flag("frozen");
                }
                self.meter.token("freeze", role, if committed { "committed" } else { "rolled-back" }, 0);
            }
            _ => {}
        }
        // C17: admin list changes only through the two calls above
        if !matches!(kind.as_str(), "update_admins" | "freeze") && (pre.admins != post.admins || pre.mutable != post.mutable) {
            self.viol(out, "C17", "admin-list-changed-by-other-call", json!({"call": kind}), format!("{} changed the admin list", kind));
        }
        if !pre.mutable && (pre.admins != post.admins || post.mutable) {
            self.viol(out, "C17", "frozen-list-changed", json!({"call": kind}), format!("{} changed a frozen admin list", kind));
        }
        if kind != "execute" && !resp.messages.is_empty() {
            self.viol(out, "C07", "unexpected-dispatch", json!({"call": kind}), format!("{} emitted messages", kind));
        }
        // tables (subkeys)
        if is_sk && !is_admin {
            // C17: which spenders have an allowance / permission record at all is for admins to decide
            for (what, a, b) in [("allowance", &pre.listed_allow, &post.listed_allow), ("permissions", &pre.listed_perms, &post.listed_perms)] {
                if let (Some(a), Some(b)) = (a, b) {
                    if a != b {
                        let gained: Vec<&String> = b.iter().filter(|x| !a.contains(x)).collect();
                        let lost: Vec<&String> = a.iter().filter(|x| !b.contains(x)).collect();
                        self.viol(
                            out,
                            "C17",
                            "records-listed-changed-by-non-admin",
                            json!({"table": what, "gained": !gained.is_empty(), "lost": !lost.is_empty()}),
                            format!("{} by {}: {} records listed changed; new: {:?}, gone: {:?}", kind, role, what, gained, lost),
                        );
                    }
                }
            }
        }
        if is_sk {
            for i in 0..n {
                let amounts_ok = post.allow[i].0 == exp_allow[i].0
                    || allow_alt.as_ref().map(|a| post.allow[i].0 == a[i].0).unwrap_or(false);
                if !amounts_ok {
                    let own = Some(i) == si;
                    let prop = if kind == "execute" || kind.ends_with("allowance") { "C08" } else { "C17" };
                    self.viol(
                        out,
                        prop,
                        if own || kind.ends_with("allowance") { "allowance-amount" } else { "other-subkey-allowance-changed" },
                        json!({"call": kind}),
                        format!(
                            "{} by {}: allowance of {} is {:?} (was {:?}), expected {:?}",
                            kind, role, self.universe[i], post.allow[i].0, pre.allow[i].0, exp_allow[i].0
                        ),
                    );
                } else if post.allow[i].0.is_empty() {
                    // a spend deducts coins and changes nothing else: the (unexpired) allowance keeps its
                    // expiry even when the spend exhausts it
                    if kind == "execute" && check_expiry_of == Some(i) && !pre.allow[i].0.is_empty() && post.allow[i].1 != pre.allow[i].1 {
                        let d = format!(
                            "execute: the spend exhausted {}'s allowance and its expiry changed {:?} -> {:?}",
                            self.universe[i], pre.allow[i].1, post.allow[i].1
                        );
                        self.viol(out, "C08", "spend-changed-expiry", json!({"exhausted": true}), d.clone());
                        // C17: apart from deducting what it relays, a subkey's own call must not alter the
                        // allowance an admin gave it
                        if !is_admin {
                            self.viol(out, "C17", "allowance-altered-by-non-admin", json!({"field": "expires"}), d);
                        }
                    }
                } else {
                    let want = if check_expiry_of == Some(i) { exp_allow[i].1 } else { pre.allow[i].1 };
                    // an allowance that was empty before has no meaningful previous expiry
                    let comparable = !pre.allow[i].0.is_empty() || (check_expiry_of == Some(i) && kind != "execute");
                    if comparable && post.allow[i].1 != want && !(pre.allow[i].0.is_empty() && want == Expiration::Never {} && check_expiry_of != Some(i)) {
                        // Increase without `expires` on an empty/expired allowance keeps the stored expiry or the default
                        let lenient = kind == "increase_allowance" && pre.allow[i].0.is_empty();
                        if !lenient {
                            self.viol(
                                out,
                                "C08",
                                "allowance-expiry",
                                json!({"call": kind}),
                                format!("{}: expiry of {}'s allowance is {:?}, expected {:?}", kind, self.universe[i], post.allow[i].1, want),
                            );
                        }
                    }
                }
                if post.perms[i] != exp_perms[i] {
                    self.viol(
                        out,
                        if kind == "set_permissions" { "C17" } else { "C08" },
                        "permissions-changed",
                        json!({"call": kind}),
                        format!("{} by {}: permissions of {} are {:?}, expected {:?}", kind, role, self.universe[i], post.perms[i], exp_perms[i]),
                    );
                }
            }
        }
    }

    fn check_state(&mut self, tx_failed: bool, out: &mut Vec<Violation>) {
        for label in ["wl", "sk"] {
            if !self.chain.contracts.contains_key(label) {
                continue;
            }
            let s = match self.snap_now(label) {
                Some(s) => s,
                None => {
                    self.viol(out, "C17", "query-failed", json!({}), format!("queries on {} failed", label));
                    continue;
                }
            };
            if let Some(prev) = self.last.get(label) {
                if tx_failed && (prev.admins != s.admins || prev.mutable != s.mutable) {
                    self.viol(out, "C17", "failed-tx-changed-admins", json!({}), "a failed transaction changed the admin list".into());
                }
                if tx_failed && (prev.allow != s.allow || prev.perms != s.perms) {
                    self.viol(out, "C08", "failed-tx-changed-allowances", json!({}), "a failed transaction changed allowances or permissions".into());
                }
            }
            if let Some(fl) = self.frozen_list.get(label) {
                if *fl != s.admins || s.mutable {
                    self.viol(out, "C17", "frozen-list-changed", json!({}), format!("{}: admin list changed after freeze", label));
                }
            }
            if !s.mutable && !self.frozen_list.contains_key(label) {
                self.frozen_list.insert(label.to_string(), s.admins.clone());
            }
            self.last.insert(label.to_string(), s);
        }
        let mut h = Fnv::new();
        let block = self.chain.block();
        for (l, s) in &self.last {
            h.str(l);
            h.u64(s.admins.len() as u64);
            h.u64(s.mutable as u64);
            for (c, e) in &s.allow {
                h.u64(c.len() as u64);
                for x in c {
                    h.u64(bucket(x.amount.u128()));
                }
                h.u64(match e {
                    Expiration::Never {} => 0,
                    e => 1 + expired(e, &block) as u64,
                });
            }
            for p in &s.perms {
                h.u64(p.0 as u64 + 2 * p.1 as u64 + 4 * p.2 as u64 + 8 * p.3 as u64);
            }
        }
        self.meter.state(h.0);
    }

    fn probe_c20(&mut self, full: bool, out: &mut Vec<Violation>) {
        if !self.on("C20") || !self.chain.contracts.contains_key("sk") {
            return;
        }
        let limits: Vec<Option<u32>> = if full { LIMITS.to_vec() } else { vec![None, Some(1), Some(30), Some(31)] };
        let dump = self.chain.dump("sk");
        let block = self.chain.block();
        let mut pages = 0u64;
        let mut hidden = 0;
        let expected: Vec<(String, Vec<Coin>, Expiration)> = rawkeys::entries(&dump, "allowances")
            .into_iter()
            .filter_map(|(k, v)| {
                let a: cw1_subkeys::state::Allowance = cosmwasm_std::from_json(&v).ok()?;
                Some((String::from_utf8(k).ok()?, a.balance.0, a.expires))
            })
            .filter(|x| {
                let e = expired(&x.2, &block);
                if e {
                    hidden += 1;
                }
                !e
            })
            .collect();
        if hidden > 0 {
            self.meter.hit("c20_expired_entries_hidden_from_listing");
        }
        if expected.len() > 30 {
            self.meter.hit("c20_listing_over_30");
        }
        let chain = &self.chain;
        let r = check_paging::<(String, Vec<Coin>, Expiration), String>(
            &expected,
            &|cur, lim| {
                chain
                    .query::<cw1_subkeys::msg::AllAllowancesResponse>("sk", &json!({"all_allowances":{"start_after":cur,"limit":lim}}))
                    .map(|r| r.allowances.into_iter().map(|a| (a.spender, a.balance.0, a.expires)).collect())
            },
            &|i| i.0.clone(),
            &limits,
            &mut pages,
        );
        let mut viols = vec![];
        if let Err((c, d)) = r {
            viols.push(("cw1-subkeys-all-allowances", c, d, hidden > 0));
        }
        {
            // cursors that are not (or no longer) listed spenders
            let stale: Vec<String> = self.universe.iter().filter(|a| !expected.iter().any(|e| &e.0 == *a)).take(4).cloned().collect();
            let r = check_stale_cursors::<(String, Vec<Coin>, Expiration), String>(
                &expected,
                &|cur, lim| {
                    chain
                        .query::<cw1_subkeys::msg::AllAllowancesResponse>("sk", &json!({"all_allowances":{"start_after":cur,"limit":lim}}))
                        .map(|r| r.allowances.into_iter().map(|a| (a.spender, a.balance.0, a.expires)).collect())
                },
                &|i| i.0.clone(),
                &stale,
            );
            if let Err((c, d)) = r {
                viols.push(("cw1-subkeys-all-allowances", c, d, hidden > 0));
            }
        }
        let expected: Vec<(String, (bool, bool, bool, bool))> = rawkeys::entries(&dump, "permissions")
            .into_iter()
            .filter_map(|(k, v)| {
                let p: cw1_subkeys::state::Permissions = cosmwasm_std::from_json(&v).ok()?;
                Some((String::from_utf8(k).ok()?, (p.delegate, p.redelegate, p.undelegate, p.withdraw)))
            })
            .collect();
        let r = check_paging::<(String, (bool, bool, bool, bool)), String>(
            &expected,
            &|cur, lim| {
                chain
                    .query::<cw1_subkeys::msg::AllPermissionsResponse>("sk", &json!({"all_permissions":{"start_after":cur,"limit":lim}}))
                    .map(|r| {
                        r.permissions
                            .into_iter()
                            .map(|p| (p.spender, (p.permissions.delegate, p.permissions.redelegate, p.permissions.undelegate, p.permissions.withdraw)))
                            .collect()
                    })
            },
            &|i| i.0.clone(),
            &limits,
            &mut pages,
        );
        if let Err((c, d)) = r {
            viols.push(("cw1-subkeys-all-permissions", c, d, false));
        }
        // listed rows agree with the point queries for the same key
        for (k, v) in rawkeys::entries(&dump, "allowances").into_iter().take(40) {
            if let (Ok(sp), Ok(a)) = (String::from_utf8(k), cosmwasm_std::from_json::<cw1_subkeys::state::Allowance>(&v)) {
                if expired(&a.expires, &block) {
                    continue;
                }
                if let Ok(q) = chain.query::<cw1_subkeys::state::Allowance>("sk", &json!({"allowance":{"spender": sp}})) {
                    if norm_coins(&q.balance.0) != norm_coins(&a.balance.0) || q.expires != a.expires {
                        viols.push(("cw1-subkeys-all-allowances", "listed-item-ne-point-query".into(), format!("{}: listed {:?} but Allowance says {:?}", sp, a, q), false));
                    }
                }
            }
        }
        for (k, v) in rawkeys::entries(&dump, "permissions").into_iter().take(40) {
            if let (Ok(sp), Ok(a)) = (String::from_utf8(k), cosmwasm_std::from_json::<cw1_subkeys::state::Permissions>(&v)) {
                if let Ok(q) = chain.query::<cw1_subkeys::state::Permissions>("sk", &json!({"permissions":{"spender": sp}})) {
                    if q != a {
                        viols.push(("cw1-subkeys-all-permissions", "listed-item-ne-point-query".into(), format!("{}: listed {:?} but Permissions says {:?}", sp, a, q), false));
                    }
                }
            }
        }
        for (l, c, d, h) in viols {
            self.viol(out, "C20", &format!("{}/{}", l, c), json!({"list": l, "expired_entries_present": h}), d);
        }
        *self.meter.probes.entry("c20_pages_walked").or_insert(0) += pages;
        self.meter.flag("c20_probed");
    }

    // ---------------------------------------------------------------- generation

    fn gen_coin(&self, rng: &mut Rng, reference: u128) -> Coin {
        let d = *rng.pick(&DENOMS);
        let a = match rng.below(8) {
            0 => 0,
            1 => reference,
            2 => reference.saturating_add(1),
            3 => reference.saturating_sub(1),
            4 => 1,
            _ => rng.range(1, 200) as u128,
        };
        Coin::new(a, d)
    }

    fn gen_expiry(&mut self, rng: &mut Rng) -> Option<Expiration> {
        let b = self.chain.block();
        match rng.below(10) {
            0..=3 => None,
            4 => Some(Expiration::Never {}),
            5..=7 => Some(Expiration::AtHeight(b.height + *rng.pick(&[0u64, 1, 1, 2, 3, 10]))),
            _ => Some(Expiration::AtTime(b.time.plus_seconds(*rng.pick(&[0u64, 1, 2, 3, 10]) * self.cfg.spb.max(1)))),
        }
    }

    /// who is paid: mostly somebody of the universe, now and then the proxy itself (or the other proxy) — the
    /// contract's own address is a legal recipient like any other
    fn pick_recipient(&self, rng: &mut Rng) -> String {
        if rng.chance(1, if self.cfg.profile == "C16" { 8 } else { 18 }) {
            // the proxy relays the message as submitted: a recipient string it cannot judge is the bank's business
            return match rng.below(3) {
                0 => "not-an-address".to_string(),
                1 => rng.pick(&self.universe).to_uppercase(),
                _ => "osmo1qypqxpq9qcrsszg2pvxq6rs0zqg3yyc5lzv7xu".to_string(),
            };
        }
        if rng.chance(1, 7) {
            let l = *rng.pick(&["sk", "sk", "wl"]);
            let a = self.chain.addr(l);
            if !a.is_empty() {
                return a;
            }
        }
        rng.pick(&self.universe).clone()
    }

    fn gen_cosmos_msg(&mut self, rng: &mut Rng, sender: &str) -> CosmosMsg {
        let to = self.pick_recipient(rng);
        // what the sender may still spend (first denom with an allowance)
        let reference = self
            .idx(sender)
            .and_then(|i| self.last.get("sk").and_then(|s| s.allow.get(i).cloned()))
            .and_then(|(c, _)| c.first().map(|x| x.amount.u128()))
            .unwrap_or(50);
        match rng.below(24) {
            0..=7 => {
                // 0 coins is an unusual but legal bank send
                let n = if rng.chance(1, 10) { 0 } else { rng.range(1, 3) };
                let mut amount: Vec<Coin> = (0..n).map(|_| self.gen_coin(rng, reference)).collect();
                if rng.chance(1, 8) && !amount.is_empty() {
                    let d = amount[0].clone();
                    amount.push(d); // duplicate denom inside one send
                }
                CosmosMsg::Bank(BankMsg::Send { to_address: to, amount })
            }
            8 => CosmosMsg::Bank(BankMsg::Burn { amount: vec![Coin::new(1u128, "ua")] }),
            9 | 10 => CosmosMsg::Staking(StakingMsg::Delegate { validator: "val1".into(), amount: Coin::new(10u128, "ua") }),
            11 => CosmosMsg::Staking(StakingMsg::Undelegate { validator: "val1".into(), amount: Coin::new(10u128, "ua") }),
            12 => CosmosMsg::Staking(StakingMsg::Redelegate { src_validator: "val1".into(), dst_validator: "val2".into(), amount: Coin::new(10u128, "ua") }),
            13 => CosmosMsg::Distribution(DistributionMsg::SetWithdrawAddress { address: to }),
            14 => CosmosMsg::Distribution(DistributionMsg::WithdrawDelegatorReward { validator: "val1".into() }),
            15 => CosmosMsg::Distribution(DistributionMsg::FundCommunityPool { amount: vec![Coin::new(1u128, "ua")] }),
            16 | 17 => CosmosMsg::Wasm(WasmMsg::Execute {
                contract_addr: rng.pick(&self.sinks).clone(),
                msg: Binary::from(format!("{{\"ping\":{}}}", rng.below(100)).into_bytes()),
                funds: if rng.chance(1, 3) { vec![Coin::new(rng.range(1, 20) as u128, "ua")] } else { vec![] },
            }),
            18 => {
                if rng.chance(1, 2) {
                    CosmosMsg::Wasm(WasmMsg::UpdateAdmin { contract_addr: self.sinks[0].clone(), admin: to })
                } else {
                    // F6: the proxy is asked to call itself (or the other proxy)
                    let target = if rng.chance(2, 3) { self.sk.clone() } else { self.wl.clone() };
                    let inner = match rng.below(4) {
                        0 => json!({"freeze":{}}),
                        1 => json!({"update_admins":{"admins":[to.clone()]}}),
                        2 => json!({"execute":{"msgs":[]}}),
                        _ => json!({"update_admins":{"admins":[to.clone(), sender]}}),
                    };
                    CosmosMsg::Wasm(WasmMsg::Execute { contract_addr: target, msg: Binary::from(serde_json::to_vec(&inner).unwrap()), funds: vec![] })
                }
            }
            19 => CosmosMsg::Wasm(WasmMsg::ClearAdmin { contract_addr: self.sinks[0].clone() }),
            20 => CosmosMsg::Ibc(IbcMsg::Transfer {
                channel_id: "channel-0".into(),
                to_address: "remote".into(),
                amount: Coin::new(5u128, "ua"),
                timeout: IbcTimeout::with_timestamp(Timestamp::from_seconds(2_000_000_000)),
                memo: None,
            }),
            21 => CosmosMsg::Gov(GovMsg::Vote { proposal_id: 1, option: VoteOption::Yes }),
            22 => CosmosMsg::Any(AnyMsg { type_url: "/cosmos.bank.v1beta1.MsgSend".into(), value: Binary::from(vec![1, 2, 3]) }),
            _ => CosmosMsg::Wasm(WasmMsg::Instantiate {
                admin: None,
                code_id: 1,
                msg: Binary::from(b"{}".to_vec()),
                funds: vec![],
                label: "child".into(),
            }),
        }
    }

    fn pick_caller(&self, rng: &mut Rng, label: &str) -> String {
        // admins, subkeys, strangers, removed admins — all drawn from the same small universe
        if let Some(s) = self.last.get(label) {
            if !s.admins.is_empty() && rng.chance(2, 5) {
                return rng.pick(&s.admins).clone();
            }
        }
        rng.pick(&self.users).clone()
    }
}

impl World for WorldB {
    const NAME: &'static str = "B";

    fn gen_config(rng: &mut Rng, prop: &str, thorough: bool) -> Value {
        let nusers = rng.range(3, 6) as usize;
        let users: Vec<String> = (0..nusers).map(|i| format!("user{}", i)).collect();
        let pick_admins = |rng: &mut Rng| -> Vec<String> {
            let n = rng.range(0, 3) as usize;
            let mut v: Vec<String> = (0..n).map(|_| rng.pick(&users).clone()).collect();
            if rng.chance(3, 4) {
                v.sort();
                v.dedup();
            }
            v
        };
        let cfg = BCfg {
            wl_admins: pick_admins(rng),
            wl_mutable: rng.chance(3, 4),
            sk_admins: {
                let mut a = pick_admins(rng);
                if a.is_empty() && rng.chance(4, 5) {
                    a.push(users[0].clone());
                }
                a
            },
            sk_mutable: rng.chance(3, 4),
            users,
            bulk: if prop == "C20" && rng.chance(2, 3) { rng.range(25, 70) as usize } else { 0 },
            spb: *rng.pick(&[0u64, 1, 5, 6, 1000]),
            steps: if thorough { rng.range(30, 140) as usize } else { rng.range(20, 80) as usize },
            faults: rng.chance(1, 2),
            profile: prop.to_string(),
        };
        serde_json::to_value(cfg).unwrap()
    }

    fn build(config: &Value, prop: &str) -> Self {
        let cfg: BCfg = serde_json::from_value(config.clone()).expect("config");
        let mut chain = Chain::new();
        let users: Vec<String> = cfg.users.iter().map(|u| addr_of(u)).collect();
        let wadmin = addr_of("wasm-admin");
        let mut sinks = vec![];
        for i in 0..2 {
            sinks.push(chain.instantiate(Kind::Sink, &format!("sink{}", i), &wadmin, &json!({}), vec![], Some(wadmin.clone())).expect("sink"));
        }
        let mut universe = users.clone();
        universe.extend(sinks.iter().cloned());
        {
            let u2 = universe.clone();
            chain.set_snapper(Box::new(move |kind, _addr, inner, deps, env: &Env| match kind {
                Kind::Whitelist => snap_cw1(inner, deps, env, &u2, false),
                Kind::Subkeys => snap_cw1(inner, deps, env, &u2, true),
                _ => Snap::None,
            }));
        }
        let wl = chain
            .instantiate(
                Kind::Whitelist,
                "wl",
                &wadmin,
                &json!({"admins": cfg.wl_admins.iter().map(|a| addr_of(a)).collect::<Vec<_>>(), "mutable": cfg.wl_mutable}),
                vec![],
                None,
            )
            .unwrap_or_default();
        let sk = chain
            .instantiate(
                Kind::Subkeys,
                "sk",
                &wadmin,
                &json!({"admins": cfg.sk_admins.iter().map(|a| addr_of(a)).collect::<Vec<_>>(), "mutable": cfg.sk_mutable}),
                vec![],
                Some(wadmin.clone()), // chain-level admin: the only one who may migrate the code
            )
            .unwrap_or_default();
        for p in [&wl, &sk] {
            if !p.is_empty() {
                chain.mint(p, DENOMS.iter().map(|d| Coin::new(1_000_000_000u128, *d)).collect());
            }
        }
        let bulk_addrs: Vec<String> = (0..cfg.bulk).map(|i| addr_of(&format!("bulk{}", i))).collect();
        let mut w = WorldB {
            cfg: cfg.clone(),
            prop: prop.to_string(),
            chain,
            meter: Meter::default(),
            users,
            sinks,
            universe,
            bulk_addrs,
            wl,
            sk,
            step_idx: 0,
            pending: vec![],
            last: BTreeMap::new(),
            frozen_list: BTreeMap::new(),
            granted: BTreeMap::new(),
            relayed: BTreeMap::new(),
            deadlines_h: vec![],
            deadlines_t: vec![],
            queue: Default::default(),
            multi_denom_done: 0,
            model_admins: BTreeMap::new(),
            model_allow: BTreeMap::new(),
        };
        w.meter.flag("instantiated");
        let mut pend = vec![];
        w.check_state(false, &mut pend);
        w.model_admins.insert(w.wl.clone(), cfg.wl_admins.iter().map(|a| addr_of(a)).collect());
        w.model_admins.insert(w.sk.clone(), cfg.sk_admins.iter().map(|a| addr_of(a)).collect());
        // bulk subkeys with allowances (some expiring soon) and permissions
        if cfg.bulk > 0 {
            if let Some(adm) = w.last.get("sk").and_then(|s| s.admins.first().cloned()) {
                let b = w.chain.block();
                for (i, a) in w.bulk_addrs.clone().iter().enumerate() {
                    let exp = match i % 4 {
                        0 => json!({"at_height": b.height + 3 + (i as u64 % 5)}),
                        1 => json!({"never":{}}),
                        2 => json!({"at_time": b.time.plus_seconds(5 + i as u64).nanos().to_string()}),
                        _ => Value::Null,
                    };
                    w.chain.exec(
                        &adm,
                        "sk",
                        &json!({"increase_allowance":{"spender": a, "amount": {"denom":"ua","amount": (i + 1).to_string()}, "expires": exp}}),
                        vec![],
                        None,
                        &[],
                    );
                    if i % 2 == 0 {
                        w.chain.exec(
                            &adm,
                            "sk",
                            &json!({"set_permissions":{"spender": a, "permissions": {"delegate": true, "redelegate": false, "undelegate": i % 4 == 0, "withdraw": false}}}),
                            vec![],
                            None,
                            &[],
                        );
                    }
                }
                w.meter.hit("bulk_population");
            }
        }
        w.pending = pend;
        w
    }

    fn planned_steps(&self) -> usize {
        self.cfg.steps
    }

    fn gen_step(&mut self, rng: &mut Rng) -> Step {
        let weights: [u32; 6] = match self.cfg.profile.as_str() {
            // execute, allowance ops, perms, admin ops, canexec, block
            "C07" => [50, 12, 8, 8, 5, 17],
            "C08" => [40, 30, 3, 5, 4, 18],
            "C16" => [10, 18, 8, 6, 42, 16],
            "C17" => [15, 18, 10, 35, 4, 18],
            _ => [30, 20, 8, 12, 12, 18],
        };
        if let Some(s) = self.queue.pop_front() {
            return s;
        }
        if rng.chance(1, 30) && self.multi_denom_done < 2 {
            // an allowance in every denomination, then one send that uses one of them up exactly and draws on another
            let admins: Vec<String> = self.last.get("sk").map(|s| s.admins.clone()).unwrap_or_default().into_iter().filter(|a| self.universe.contains(a)).collect();
            let subs: Vec<String> = self.universe.iter().filter(|u| !admins.contains(u) && self.chain.label_of(u).is_none()).cloned().collect();
            if let (Some(adm), false) = (admins.first().cloned(), subs.is_empty()) {
                self.multi_denom_done += 1;
                let sub = rng.pick(&subs).clone();
                let tx = |sender: &str, msg: Value| Step::Tx { sender: sender.to_string(), target: "sk".into(), msg, funds: vec![], fault: None, script: vec![] };
                let amts: Vec<u128> = DENOMS.iter().map(|_| rng.range(5, 120) as u128).collect();
                let mut seq: Vec<Step> = DENOMS
                    .iter()
                    .zip(&amts)
                    .map(|(d, a)| tx(&adm, json!({"increase_allowance":{"spender": sub, "amount": {"denom": d, "amount": a.to_string()}, "expires": null}})))
                    .collect();
                let i0 = rng.below(2) as usize;
                let i1 = rng.range(i0 as u64 + 1, 2) as usize;
                // (the amounts are what was just granted; an allowance the subkey already had makes the first coin a partial draw)
                let second = *rng.pick(&[amts[i1] / 2 + 1, amts[i1], amts[i1] + 1]);
                let to = self.pick_recipient(rng);
                let send = CosmosMsg::Bank(BankMsg::Send { to_address: to, amount: vec![Coin::new(amts[i0], DENOMS[i0]), Coin::new(second, DENOMS[i1])] });
                seq.push(tx(&sub, json!({"execute":{"msgs":[cm(&send)]}})));
                self.meter.hit("grants_in_every_denom_then_multi_coin_send");
                let mut it = seq.into_iter();
                let head = it.next().unwrap();
                for s in it {
                    self.queue.push_back(s);
                }
                return head;
            }
        }
        if rng.chance(1, 45) {
            // a code upgrade in the middle of activity (cw1-subkeys has a migrate entry point)
            return Step::Migrate { target: "sk".into(), msg: json!({}), scenario: None };
        }
        if rng.chance(1, 14) {
            // F1: an admin's Decrease racing the subkey's spend, adjacent, in either order
            let mut live: Vec<(String, Coin)> = vec![];
            let mut admin: Option<String> = None;
            if let Some(s) = self.last.get("sk") {
                admin = s.admins.first().cloned();
                for (i, u) in self.universe.iter().enumerate() {
                    if self.users.contains(u) && !s.admins.contains(u) {
                        if let Some(c) = s.allow.get(i).and_then(|a| a.0.first().cloned()) {
                            live.push((u.clone(), c));
                        }
                    }
                }
            }
            if let (Some(adm), false) = (admin, live.is_empty()) {
                let (sub, c) = rng.pick(&live).clone();
                let a = c.amount.u128();
                let cut = *rng.pick(&[a, a / 2, a + 1, 1]);
                let spend = *rng.pick(&[a, a / 2 + 1, a.saturating_sub(cut), a.saturating_sub(cut) + 1]);
                let to = rng.pick(&self.universe).clone();
                let admin_step = Step::Tx {
                    sender: adm,
                    target: "sk".into(),
                    msg: json!({"decrease_allowance":{"spender": sub, "amount": {"denom": c.denom, "amount": cut.to_string()}, "expires": null}}),
                    funds: vec![],
                    fault: None,
                    script: vec![],
                };
                let spend_step = Step::Tx {
                    sender: sub.clone(),
                    target: "sk".into(),
                    msg: json!({"execute":{"msgs":[cm(&CosmosMsg::Bank(BankMsg::Send { to_address: to, amount: vec![Coin::new(spend, c.denom.clone())] }))]}}),
                    funds: vec![],
                    fault: None,
                    script: vec![],
                };
                self.meter.hit("allowance_race_pair_scheduled");
                if rng.chance(1, 2) {
                    self.queue.push_back(spend_step);
                    return admin_step;
                } else {
                    self.queue.push_back(admin_step);
                    return spend_step;
                }
            }
        }
        if rng.chance(1, 25) {
            // exhaust -> re-grant -> deadline: the subkey spends its whole allowance, an admin tops it up without naming an
            // expiry, the clock passes the original expiry, the subkey spends again
            let b = self.chain.block();
            let mut live: Vec<(String, Vec<Coin>, Expiration)> = vec![];
            let mut admin: Option<String> = None;
            if let Some(s) = self.last.get("sk") {
                admin = s.admins.iter().find(|a| self.users.contains(*a)).cloned();
                for (i, u) in self.universe.iter().enumerate() {
                    if self.users.contains(u) && !s.admins.contains(u) {
                        if let Some(a) = s.allow.get(i) {
                            if !a.0.is_empty() && !matches!(a.1, Expiration::Never {}) {
                                live.push((u.clone(), a.0.clone(), a.1));
                            }
                        }
                    }
                }
            }
            if let (Some(adm), false) = (admin, live.is_empty()) {
                let (sub, coins, e) = rng.pick(&live).clone();
                let to = rng.pick(&self.universe).clone();
                let tx = |sender: &str, msg: Value| Step::Tx { sender: sender.to_string(), target: "sk".into(), msg, funds: vec![], fault: None, script: vec![] };
                let spend_all = tx(&sub, json!({"execute":{"msgs":[cm(&CosmosMsg::Bank(BankMsg::Send { to_address: to.clone(), amount: coins.clone() }))]}}));
                let regrant = tx(&adm, json!({"increase_allowance":{"spender": sub, "amount": {"denom": coins[0].denom, "amount": "7"}, "expires": null}}));
                let jump = match e {
                    Expiration::AtHeight(h) if h > b.height => Some(Step::Block { dh: h - b.height, dt: (h - b.height).saturating_mul(self.cfg.spb), dn: 0 }),
                    Expiration::AtTime(t) if t.nanos() > b.time.nanos() => {
                        let d = t.nanos() - b.time.nanos();
                        Some(Step::Block { dh: 1, dt: d / crate::util::NS, dn: d % crate::util::NS })
                    }
                    _ => None,
                };
                if let Some(j) = jump {
                    let spend_again = tx(&sub, json!({"execute":{"msgs":[cm(&CosmosMsg::Bank(BankMsg::Send { to_address: to, amount: vec![Coin::new(3u128, coins[0].denom.clone())] }))]}}));
                    self.queue.push_back(regrant);
                    self.queue.push_back(j);
                    self.queue.push_back(spend_again);
                    self.meter.hit("exhaust_regrant_deadline_sequence");
                    return spend_all;
                }
            }
        }
        if rng.chance(1, 12) {
            // F3: put a subkey's spend exactly on / around the expiry of its allowance
            let b = self.chain.block();
            let mut live: Vec<(String, Coin, Expiration)> = vec![];
            if let Some(s) = self.last.get("sk") {
                for (i, u) in self.universe.iter().enumerate() {
                    if self.users.contains(u) && !s.admins.contains(u) {
                        if let Some((c, e)) = s.allow.get(i).and_then(|a| a.0.first().cloned().map(|c| (c, a.1))) {
                            if !matches!(e, Expiration::Never {}) {
                                live.push((u.clone(), c, e));
                            }
                        }
                    }
                }
            }
            if !live.is_empty() {
                let (sub, c, e) = rng.pick(&live).clone();
                let off = *rng.pick(&[0u64, 0, 1, 2]); // expiry-1, expiry, expiry, expiry+1  (as target = e + off - 1)
                let jump = match e {
                    Expiration::AtHeight(h) => {
                        let target = (h + off).saturating_sub(1);
                        if target > b.height { Some(Step::Block { dh: target - b.height, dt: (target - b.height).saturating_mul(self.cfg.spb), dn: 0 }) } else { None }
                    }
                    Expiration::AtTime(t) => crate::util::jump_around(rng, b.time.nanos(), t.nanos()).map(|(dt, dn)| Step::Block { dh: 1, dt, dn }),
                    _ => None,
                };
                if let Some(j) = jump {
                    let to = rng.pick(&self.universe).clone();
                    let amt = (c.amount.u128() / 2).max(1);
                    self.queue.push_back(Step::Tx {
                        sender: sub,
                        target: "sk".into(),
                        msg: json!({"execute":{"msgs":[cm(&CosmosMsg::Bank(BankMsg::Send { to_address: to, amount: vec![Coin::new(amt, c.denom.clone())] }))]}}),
                        funds: vec![],
                        fault: None,
                        script: vec![],
                    });
                    self.meter.hit("spend_scheduled_around_allowance_expiry");
                    return j;
                }
            }
        }
        let label = if rng.chance(2, 3) { "sk" } else { "wl" };
        let k = rng.weighted(&weights);
        let fault = if self.cfg.faults && rng.chance(1, 10) {
            let t = match rng.below(5) {
                0 => "bank".to_string(),
                1 => "staking".to_string(),
                2 => "distribution".to_string(),
                3 => self.sinks[0].clone(),
                _ => self.chain.addr(label),
            };
            Some(Fault { target: t, nth: rng.range(1, 2) as u32, mode: if rng.chance(1, 2) { FaultMode::Early } else { FaultMode::Late } })
        } else {
            None
        };
        match k {
            0 => {
                // prefer real subkeys (addresses holding an allowance or permissions) on the subkeys proxy
                let mut subkeys: Vec<String> = vec![];
                if label == "sk" {
                    if let Some(s) = self.last.get("sk") {
                        for (i, u) in self.universe.iter().enumerate() {
                            let has = s.allow.get(i).map(|a| !a.0.is_empty()).unwrap_or(false)
                                || s.perms.get(i).map(|p| p.0 || p.1 || p.2 || p.3).unwrap_or(false);
                            if has && !s.admins.contains(u) && self.users.contains(u) {
                                subkeys.push(u.clone());
                            }
                        }
                    }
                }
                if !subkeys.is_empty() && rng.chance(3, 5) {
                    let sender = rng.pick(&subkeys).clone();
                    let i = self.idx(&sender).unwrap();
                    let allow = self.last["sk"].allow[i].0.clone();
                    let n = rng.range(1, 3);
                    let mut msgs: Vec<Value> = vec![];
                    for _ in 0..n {
                        if allow.len() >= 2 && rng.chance(1, 4) {
                            // one send that uses up one denomination exactly and also draws on another one
                            let i0 = rng.below(allow.len() as u64 - 1) as usize;
                            let i1 = rng.range(i0 as u64 + 1, allow.len() as u64 - 1) as usize;
                            let second = match rng.below(4) {
                                0 => allow[i1].amount.u128(),
                                1 => allow[i1].amount.u128() + 1,
                                _ => (allow[i1].amount.u128() / 2).max(1),
                            };
                            let mut amount = vec![Coin::new(allow[i0].amount.u128(), allow[i0].denom.clone()), Coin::new(second, allow[i1].denom.clone())];
                            if rng.chance(1, 3) {
                                amount.reverse();
                            }
                            let to = self.pick_recipient(rng);
                            msgs.push(cm(&CosmosMsg::Bank(BankMsg::Send { to_address: to, amount })));
                            self.meter.hit("send_draining_one_denom_and_touching_another");
                        } else if !allow.is_empty() && rng.chance(4, 5) {
                            let k = rng.range(1, allow.len().min(2) as u64) as usize;
                            let mut amount = vec![];
                            for c in allow.iter().take(k) {
                                let a = match rng.below(8) {
                                    0 => c.amount.u128(),
                                    1 => c.amount.u128() + 1,
                                    2 => 0,
                                    _ => (c.amount.u128() / 3).max(1),
                                };
                                amount.push(Coin::new(a, c.denom.clone()));
                            }
                            let to = self.pick_recipient(rng);
                            msgs.push(cm(&CosmosMsg::Bank(BankMsg::Send { to_address: to, amount })));
                        } else {
                            msgs.push(cm(&self.gen_cosmos_msg(rng, &sender)));
                        }
                    }
                    return Step::Tx { sender, target: "sk".into(), msg: json!({"execute":{"msgs": msgs}}), funds: vec![], fault, script: vec![] };
                }
                let sender = self.pick_caller(rng, label);
                let n = match rng.below(10) {
                    0 => 0,
                    1..=5 => 1,
                    6 | 7 => 2,
                    8 => 3,
                    _ => 4,
                };
                let msgs: Vec<Value> = (0..n).map(|_| cm(&self.gen_cosmos_msg(rng, &sender))).collect();
                let script = if rng.chance(1, 8) { vec![("sink0".to_string(), SinkAct::Fail)] } else { vec![] };
                Step::Tx { sender, target: label.into(), msg: json!({"execute":{"msgs": msgs}}), funds: vec![], fault, script }
            }
            1 => {
                let sender = self.pick_caller(rng, "sk");
                let spender = if !self.bulk_addrs.is_empty() && rng.chance(1, 6) { rng.pick(&self.bulk_addrs).clone() } else { rng.pick(&self.universe).clone() };
                let cur = self
                    .idx(&spender)
                    .and_then(|i| self.last.get("sk").and_then(|s| s.allow.get(i).cloned()))
                    .and_then(|(c, _)| c.first().map(|x| x.amount.u128()))
                    .unwrap_or(0);
                let coin = self.gen_coin(rng, cur);
                let exp = self.gen_expiry(rng);
                let which = if rng.chance(3, 5) { "increase_allowance" } else { "decrease_allowance" };
                Step::Tx {
                    sender,
                    target: "sk".into(),
                    msg: json!({which: {"spender": spender, "amount": coin, "expires": exp}}),
                    funds: vec![],
                    fault,
                    script: vec![],
                }
            }
            2 => {
                let sender = self.pick_caller(rng, "sk");
                let spender = rng.pick(&self.universe).clone();
                Step::Tx {
                    sender,
                    target: "sk".into(),
                    msg: json!({"set_permissions":{"spender": spender, "permissions": {"delegate": rng.chance(1,2), "redelegate": rng.chance(1,2), "undelegate": rng.chance(1,2), "withdraw": rng.chance(1,2)}}}),
                    funds: vec![],
                    fault,
                    script: vec![],
                }
            }
            3 => {
                let sender = self.pick_caller(rng, label);
                if rng.chance(1, 6) {
                    Step::Tx { sender, target: label.into(), msg: json!({"freeze":{}}), funds: vec![], fault, script: vec![] }
                } else {
                    let n = rng.range(0, 3);
                    let mut admins: Vec<String> = (0..n).map(|_| rng.pick(&self.users).clone()).collect();
                    if rng.chance(1, 2) && !admins.contains(&sender) {
                        admins.push(sender.clone());
                    }
                    Step::Tx { sender, target: label.into(), msg: json!({"update_admins":{"admins": admins}}), funds: vec![], fault, script: vec![] }
                }
            }
            4 => {
                let sender = if rng.chance(1, 2) { self.pick_caller(rng, label) } else { rng.pick(&self.universe).clone() };
                let msg = cm(&self.gen_cosmos_msg(rng, &sender));
                Step::CanExec { sender, target: label.into(), msg }
            }
            _ => {
                let b = self.chain.block();
                if rng.chance(1, 2) && !self.deadlines_h.is_empty() {
                    let d = *rng.pick(&self.deadlines_h);
                    let target = (d + rng.below(3)).saturating_sub(1);
                    if target > b.height {
                        let dh = target - b.height;
                        return Step::Block { dh, dt: dh.saturating_mul(self.cfg.spb), dn: 0 };
                    }
                }
                if rng.chance(1, 3) && !self.deadlines_t.is_empty() {
                    let d = *rng.pick(&self.deadlines_t);
                    if let Some((dt, dn)) = crate::util::jump_around(rng, b.time.nanos(), d) {
                        return Step::Block { dh: 1, dt, dn };
                    }
                }
                let dh = *rng.pick(&[1u64, 1, 1, 2, 5, 1000]);
                Step::Block { dh, dt: dh.saturating_mul(self.cfg.spb), dn: crate::util::subsecond(rng) }
            }
        }
    }

    fn apply(&mut self, step: &Step, out: &mut Vec<Violation>) {
        if !self.pending.is_empty() {
            let p = std::mem::take(&mut self.pending);
            out.extend(p);
        }
        match step {
            Step::Tx { sender, target, msg, funds, fault, script } => {
                if self.chain.contracts.contains_key(target) {
                    let r = self.chain.exec(sender, target, msg, coins(funds), fault.clone(), script);
                    let evs = self.chain.events(&r);
                    if !r.ok {
                        self.meter.flag("tx_failed");
                        self.meter.token("tx", "any", "failed", 0);
                    }
                    self.check_frames(&evs, &r, out);
                    self.check_state(!r.ok, out);
                }
            }
            Step::Migrate { target, msg, .. } => {
                if target == "sk" && self.chain.contracts.contains_key("sk") {
                    let before = self.snap_now("sk");
                    let r = self.chain.migrate(&addr_of("wasm-admin"), "sk", msg);
                    let after = self.snap_now("sk");
                    self.meter.token("migrate", "wasm-admin", if r.ok { "ok" } else { "failed" }, 0);
                    self.meter.hit("subkeys_migrated");
                    if let (Some(a), Some(b)) = (before, after) {
                        if a.admins != b.admins || a.mutable != b.mutable {
                            self.viol(out, "C17", "migrate-changed-admin-list", json!({}), format!("migrate: admins {:?} (mutable {}) -> {:?} (mutable {})", a.admins, a.mutable, b.admins, b.mutable));
                        }
                        if a.allow != b.allow || a.listed_allow != b.listed_allow {
                            self.viol(out, "C08", "migrate-changed-allowances", json!({}), "migrate changed subkey allowances".into());
                            self.viol(out, "C17", "migrate-changed-allowances-or-permissions", json!({"table": "allowances"}), "migrate changed subkey allowances".into());
                        }
                        if a.perms != b.perms || a.listed_perms != b.listed_perms {
                            self.viol(out, "C17", "migrate-changed-allowances-or-permissions", json!({"table": "permissions"}), "migrate changed subkey permissions".into());
                        }
                    }
                    self.check_state(!r.ok, out);
                }
            }
            Step::CanExec { sender, target, msg } => {
                if self.chain.contracts.contains_key(target) {
                    let q: Result<cw1::CanExecuteResponse, bool> = self.chain.query(target, &json!({"can_execute":{"sender": sender, "msg": msg}}));
                    let r = self.chain.exec(sender, target, &json!({"execute":{"msgs":[msg]}}), vec![], None, &[]);
                    let evs = self.chain.events(&r);
                    let proxy = self.chain.addr(target);
                    // the proxy's own verdict, whatever happens downstream
                    let mut own: Option<bool> = None;
                    for ev in &evs {
                        if let Event::Frame(f) = ev {
                            if f.addr == proxy && f.entry == Entry::Execute && f.sender == *sender && own.is_none() {
                                own = Some(f.outcome.response().is_some());
                            }
                        }
                    }
                    let kind = msg.as_object().and_then(|o| o.keys().next().cloned()).unwrap_or_default();
                    match (q, own) {
                        (Ok(c), Some(o)) => {
                            self.meter.flag("canexec_probed");
                            if c.can_execute {
                                self.meter.flag("canexec_true");
                            } else {
                                self.meter.flag("canexec_false");
                            }
                            if c.can_execute != o {
                                self.viol(
                                    out,
                                    "C16",
                                    "can-execute-disagrees-with-execute",
                                    json!({"can_execute": c.can_execute, "msg_kind": kind, "subkeys": target == "sk"}),
                                    format!("CanExecute says {} but Execute by the same sender with the same {} message {}", c.can_execute, kind, if o { "succeeded" } else { "failed" }),
                                );
                            }
                        }
                        (Err(abort), _) => {
                            self.viol(out, "C16", "can-execute-query-failed", json!({"abort": abort, "msg_kind": kind}), "CanExecute failed for a valid sender".into());
                        }
                        _ => {}
                    }
                    self.meter.token("canexec", self.role(&proxy, sender), if own == Some(true) { "yes" } else { "no" }, 0);
                    self.check_frames(&evs, &r, out);
                    self.check_state(!r.ok, out);
                }
            }
            Step::Block { dh, dt, dn } => {
                self.chain.advance_ns(*dh, *dt, *dn);
                self.meter.sim_blocks += dh;
                self.meter.sim_seconds += dt;
                self.check_state(false, out);
            }
            Step::Quiesce => {
                self.probe_c20(true, out);
            }
            _ => {}
        }
        if self.on("C20") {
            let every = if self.cfg.profile == "C20" { 7 } else { 30 };
            if self.step_idx % every == every - 1 {
                self.probe_c20(self.cfg.profile == "C20", out);
            }
        }
        self.step_idx += 1;
    }

    fn chain(&self) -> &Chain {
        &self.chain
    }

    fn meter(&self) -> &Meter {
        &self.meter
    }

    fn nontrivial(&self, prop: &str) -> bool {
        let f = &self.meter.nontrivial_flags;
        match prop {
            "C07" => f.contains("execute_ok") && f.contains("proxy_refused"),
            "C08" => f.contains("subkey_spend_ok") && f.contains("proxy_refused") && f.contains("allowance_change_ok"),
            "C16" => f.contains("canexec_true") && f.contains("canexec_false"),
            "C17" => f.contains("admins_updated") || f.contains("frozen"),
            "C20" => f.contains("c20_probed"),
            _ => f.len() > 2,
        }
    }
}

#[allow(dead_code)]
fn unused(_: Uint128) {}
