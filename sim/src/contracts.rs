//! Real contracts (compiled from /repo) as `Contract<Empty>` objects, plus the cw20-ics20 shim that
//! exposes the real `ibc_*` entry points through `sudo`, and the storage-surgery side door.
use std::rc::Rc;

use anyhow::{anyhow, Result as AnyResult};
use cosmwasm_std::{
    from_json, Addr, Binary, Deps, DepsMut, Empty, Env, IbcAcknowledgement, IbcChannel,
    IbcChannelConnectMsg, IbcChannelOpenMsg, IbcEndpoint, IbcOrder, IbcPacket, IbcPacketAckMsg,
    IbcPacketReceiveMsg, IbcPacketTimeoutMsg, IbcTimeout, MessageInfo, Reply, Response, Timestamp,
};
use cw_multi_test::{Contract, ContractWrapper};
use serde::{Deserialize, Serialize};

use crate::chain::{Ctl, Kind, Sink};

#[derive(Serialize, Deserialize, Clone, Debug, PartialEq)]
pub struct PacketDesc {
    pub data: Binary,
    pub src_port: String,
    pub src_channel: String,
    pub dest_port: String,
    pub dest_channel: String,
    pub sequence: u64,
    pub timeout_ts_nanos: u64,
}

impl PacketDesc {
    pub fn to_packet(&self) -> IbcPacket {
        IbcPacket::new(
            self.data.clone(),
            IbcEndpoint {
                port_id: self.src_port.clone(),
                channel_id: self.src_channel.clone(),
            },
            IbcEndpoint {
                port_id: self.dest_port.clone(),
                channel_id: self.dest_channel.clone(),
            },
            self.sequence,
            IbcTimeout::with_timestamp(Timestamp::from_nanos(self.timeout_ts_nanos)),
        )
    }
}

/// what the simulated IBC core / relayer hands to the contract (through `sudo`)
#[derive(Serialize, Deserialize, Clone, Debug, PartialEq)]
pub enum IbcSudo {
    Open {
        channel_id: String,
        port: String,
        cp_port: String,
        cp_channel: String,
        connection_id: String,
        version: String,
        ordered: bool,
    },
    Connect {
        channel_id: String,
        port: String,
        cp_port: String,
        cp_channel: String,
        connection_id: String,
        version: String,
        ordered: bool,
    },
    Receive(PacketDesc),
    Ack { ack: Binary, packet: PacketDesc },
    Timeout(PacketDesc),
}

/// side door used by migration scenarios: raw writes into the contract's own namespace
#[derive(Serialize, Deserialize, Clone, Debug, PartialEq)]
pub struct Surgery {
    pub __surgery: Vec<(Binary, Option<Binary>)>,
}

pub fn try_surgery(deps: &mut DepsMut, msg: &[u8]) -> Option<Response<Empty>> {
    if !msg.starts_with(b"{\"__surgery\"") {
        return None;
    }
    let s: Surgery = serde_json::from_slice(msg).ok()?;
    for (k, v) in s.__surgery {
        match v {
            Some(v) => deps.storage.set(k.as_slice(), v.as_slice()),
            None => deps.storage.remove(k.as_slice()),
        }
    }
    Some(Response::new())
}

/// wraps a real contract and adds the surgery side door on `sudo`
pub struct WithSurgery(pub Box<dyn Contract<Empty>>);

impl Contract<Empty> for WithSurgery {
    fn execute(&self, d: DepsMut, e: Env, i: MessageInfo, m: Vec<u8>) -> AnyResult<Response<Empty>> {
        self.0.execute(d, e, i, m)
    }
    fn instantiate(&self, d: DepsMut, e: Env, i: MessageInfo, m: Vec<u8>) -> AnyResult<Response<Empty>> {
        self.0.instantiate(d, e, i, m)
    }
    fn query(&self, d: Deps, e: Env, m: Vec<u8>) -> AnyResult<Binary> {
        self.0.query(d, e, m)
    }
    fn sudo(&self, mut d: DepsMut, e: Env, m: Vec<u8>) -> AnyResult<Response<Empty>> {
        if let Some(r) = try_surgery(&mut d, &m) {
            return Ok(r);
        }
        self.0.sudo(d, e, m)
    }
    fn reply(&self, d: DepsMut, e: Env, m: Reply) -> AnyResult<Response<Empty>> {
        self.0.reply(d, e, m)
    }
    fn migrate(&self, d: DepsMut, e: Env, m: Vec<u8>) -> AnyResult<Response<Empty>> {
        self.0.migrate(d, e, m)
    }
}

fn channel(
    channel_id: String,
    port: String,
    cp_port: String,
    cp_channel: String,
    connection_id: String,
    version: String,
    ordered: bool,
) -> IbcChannel {
    IbcChannel::new(
        IbcEndpoint {
            port_id: port,
            channel_id,
        },
        IbcEndpoint {
            port_id: cp_port,
            channel_id: cp_channel,
        },
        if ordered {
            IbcOrder::Ordered
        } else {
            IbcOrder::Unordered
        },
        version,
        connection_id,
    )
}

/// cw20-ics20 with its real entry points; `sudo` carries `IbcSudo`
pub struct Ics20;

impl Contract<Empty> for Ics20 {
    fn execute(&self, d: DepsMut, e: Env, i: MessageInfo, m: Vec<u8>) -> AnyResult<Response<Empty>> {
        let msg: cw20_ics20::msg::ExecuteMsg = from_json(&m)?;
        cw20_ics20::contract::execute(d, e, i, msg).map_err(|e| anyhow!(e))
    }
    fn instantiate(&self, d: DepsMut, e: Env, i: MessageInfo, m: Vec<u8>) -> AnyResult<Response<Empty>> {
        let msg: cw20_ics20::msg::InitMsg = from_json(&m)?;
        cw20_ics20::contract::instantiate(d, e, i, msg).map_err(|e| anyhow!(e))
    }
    fn query(&self, d: Deps, e: Env, m: Vec<u8>) -> AnyResult<Binary> {
        let msg: cw20_ics20::msg::QueryMsg = from_json(&m)?;
        cw20_ics20::contract::query(d, e, msg).map_err(|e| anyhow!(e))
    }
    fn reply(&self, d: DepsMut, e: Env, m: Reply) -> AnyResult<Response<Empty>> {
        cw20_ics20::ibc::reply(d, e, m).map_err(|e| anyhow!(e))
    }
    fn migrate(&self, d: DepsMut, e: Env, m: Vec<u8>) -> AnyResult<Response<Empty>> {
        let msg: cw20_ics20::msg::MigrateMsg = from_json(&m)?;
        cw20_ics20::contract::migrate(d, e, msg).map_err(|e| anyhow!(e))
    }
    fn sudo(&self, mut d: DepsMut, e: Env, m: Vec<u8>) -> AnyResult<Response<Empty>> {
        if let Some(r) = try_surgery(&mut d, &m) {
            return Ok(r);
        }
        let msg: IbcSudo = serde_json::from_slice(&m)?;
        let relayer = Addr::unchecked("relayer");
        match msg {
            IbcSudo::Open {
                channel_id,
                port,
                cp_port,
                cp_channel,
                connection_id,
                version,
                ordered,
            } => {
                let ch = channel(channel_id, port, cp_port, cp_channel, connection_id, version, ordered);
                cw20_ics20::ibc::ibc_channel_open(d, e, IbcChannelOpenMsg::new_init(ch))
                    .map_err(|e| anyhow!(e))?;
                Ok(Response::new())
            }
            IbcSudo::Connect {
                channel_id,
                port,
                cp_port,
                cp_channel,
                connection_id,
                version,
                ordered,
            } => {
                let v = version.clone();
                let ch = channel(channel_id, port, cp_port, cp_channel, connection_id, version, ordered);
                let r = cw20_ics20::ibc::ibc_channel_connect(d, e, IbcChannelConnectMsg::new_ack(ch, v))
                    .map_err(|e| anyhow!(e))?;
                let mut out = Response::new();
                out.messages = r.messages;
                Ok(out)
            }
            IbcSudo::Receive(p) => {
                let msg = IbcPacketReceiveMsg::new(p.to_packet(), relayer);
                // the entry point's error type is `Never`
                let r = match cw20_ics20::ibc::ibc_packet_receive(d, e, msg) {
                    Ok(r) => r,
                    Err(_) => return Err(anyhow!("ibc_packet_receive returned Err")),
                };
                let mut out = Response::new();
                out.messages = r.messages;
                out.data = r.acknowledgement;
                Ok(out)
            }
            IbcSudo::Ack { ack, packet } => {
                let msg = IbcPacketAckMsg::new(IbcAcknowledgement::new(ack), packet.to_packet(), relayer);
                let r = cw20_ics20::ibc::ibc_packet_ack(d, e, msg).map_err(|e| anyhow!(e))?;
                let mut out = Response::new();
                out.messages = r.messages;
                Ok(out)
            }
            IbcSudo::Timeout(p) => {
                let msg = IbcPacketTimeoutMsg::new(p.to_packet(), relayer);
                let r = cw20_ics20::ibc::ibc_packet_timeout(d, e, msg).map_err(|e| anyhow!(e))?;
                let mut out = Response::new();
                out.messages = r.messages;
                Ok(out)
            }
        }
    }
}

pub fn real(kind: Kind, ctl: Rc<Ctl>) -> Box<dyn Contract<Empty>> {
    match kind {
        Kind::Cw20 => Box::new(WithSurgery(Box::new(
            ContractWrapper::new(
                cw20_base::contract::execute,
                cw20_base::contract::instantiate,
                cw20_base::contract::query,
            )
            .with_migrate(cw20_base::contract::migrate),
        ))),
        Kind::Whitelist => Box::new(ContractWrapper::new(
            cw1_whitelist::contract::execute,
            cw1_whitelist::contract::instantiate,
            cw1_whitelist::contract::query,
        )),
        Kind::Subkeys => Box::new(
            ContractWrapper::new(
                cw1_subkeys::contract::execute,
                cw1_subkeys::contract::instantiate,
                cw1_subkeys::contract::query,
            )
            .with_migrate(cw1_subkeys::contract::migrate),
        ),
        Kind::Fixed => Box::new(ContractWrapper::new(
            cw3_fixed_multisig::contract::execute,
            cw3_fixed_multisig::contract::instantiate,
            cw3_fixed_multisig::contract::query,
        )),
        Kind::Flex => Box::new(ContractWrapper::new(
            cw3_flex_multisig::contract::execute,
            cw3_flex_multisig::contract::instantiate,
            cw3_flex_multisig::contract::query,
        )),
        Kind::Group => Box::new(ContractWrapper::new(
            cw4_group::contract::execute,
            cw4_group::contract::instantiate,
            cw4_group::contract::query,
        )),
        Kind::Stake => Box::new(ContractWrapper::new(
            cw4_stake::contract::execute,
            cw4_stake::contract::instantiate,
            cw4_stake::contract::query,
        )),
        Kind::Ics20 => Box::new(Ics20),
        Kind::Sink => Box::new(Sink { ctl }),
    }
}
