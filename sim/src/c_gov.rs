//! World C monitors for the multisigs: C03 (status = outcome implied by ballots), C05 (execute at most
//! once, forward-only lifecycle), C06 (ballots and total from the proposal's own snapshot),
//! C15 (deposits), plus the cw3/cw4 part of C20 and the quiescence phase.
use std::collections::BTreeMap;

use cosmwasm_std::{BankMsg, BlockInfo, Coin, CosmosMsg, Decimal, ReplyOn, WasmMsg};
use cw3::{ProposalResponse, Status};
use cw_utils::{Duration, Expiration, ThresholdResponse};
use serde_json::{json, Value};

use crate::chain::{Entry, Event, Frame, Kind, ModMsg, TxResult};
use crate::paging::{check_paging, check_stale_cursors, LIMITS};
use crate::rawkeys;
use crate::trace::{Step, Violation};
use crate::world_a::expired;
use crate::world_c::{Members, MsigState, PropTrack, WorldC, PAY_DENOM};

const E18: u128 = 1_000_000_000_000_000_000;
const E9: u128 = 1_000_000_000;

/// exact ceil(base * pct); second value: the smallest requirement the property tolerates — the same product
/// evaluated at cw3's documented precision of nine decimals (`base * pct` truncated to 1e-9 before rounding up),
/// which is one vote less exactly when base * pct lies within 1e-9 above an integer
fn needed(base: u128, pct: Decimal) -> (u128, u128) {
    let at = pct.atomics().u128();
    let prod = base * at; // base < 2^64, at <= 1e18 < 2^60
    let exact = (prod + E18 - 1) / E18;
    let lenient = (prod / E9 + E9 - 1) / E9;
    (exact, lenient)
}

#[derive(Clone, Copy, Debug, Default)]
pub struct Tally {
    pub yes: u128,
    pub no: u128,
    pub abstain: u128,
    pub veto: u128,
}

impl Tally {
    pub fn total(&self) -> u128 {
        self.yes + self.no + self.abstain + self.veto
    }
}

/// the cw3 rule in exact integer arithmetic; `lenient` selects the tolerated lower requirement
fn rule_met(th: &ThresholdResponse, t: &Tally, is_expired: bool, lenient: bool) -> bool {
    let pick = |n: (u128, u128)| if lenient { n.1 } else { n.0 };
    match th {
        ThresholdResponse::AbsoluteCount { weight, .. } => t.yes >= *weight as u128,
        ThresholdResponse::AbsolutePercentage { percentage, total_weight } => {
            let base = (*total_weight as u128).saturating_sub(t.abstain);
            t.yes >= pick(needed(base, *percentage))
        }
        ThresholdResponse::ThresholdQuorum { threshold, quorum, total_weight } => {
            if t.total() < pick(needed(*total_weight as u128, *quorum)) {
                return false;
            }
            let opinions = if is_expired {
                t.total() - t.abstain
            } else {
                (*total_weight as u128).saturating_sub(t.abstain)
            };
            t.yes >= pick(needed(opinions, *threshold))
        }
    }
}

fn total_of(th: &ThresholdResponse) -> u64 {
    match th {
        ThresholdResponse::AbsoluteCount { total_weight, .. } => *total_weight,
        ThresholdResponse::AbsolutePercentage { total_weight, .. } => *total_weight,
        ThresholdResponse::ThresholdQuorum { total_weight, .. } => *total_weight,
    }
}

fn kind_of(th: &ThresholdResponse) -> &'static str {
    match th {
        ThresholdResponse::AbsoluteCount { .. } => "absolute_count",
        ThresholdResponse::AbsolutePercentage { .. } => "absolute_percentage",
        ThresholdResponse::ThresholdQuorum { .. } => "threshold_quorum",
    }
}

pub struct Verdict {
    pub passed: bool,
    pub must_reject: bool,
    pub may_reject: bool,
}

fn verdict(th: &ThresholdResponse, t: &Tally, is_expired: bool, lenient: bool) -> Verdict {
    let passed = t.yes > 0 && rule_met(th, t, is_expired, lenient);
    let total = total_of(th) as u128;
    let remaining = total.saturating_sub(t.total());
    let best = Tally { yes: t.yes + remaining, ..*t };
    let can_still_pass = best.yes > 0 && rule_met(th, &best, true, lenient);
    let must_reject = is_expired && !passed;
    Verdict {
        passed,
        must_reject,
        may_reject: !passed && (must_reject || !can_still_pass),
    }
}

fn status_ok(status: Status, v: &Verdict) -> bool {
    match status {
        Status::Passed => v.passed,
        Status::Rejected => v.may_reject,
        Status::Open => !v.passed && !v.must_reject,
        _ => true,
    }
}

fn list_proposals(w: &WorldC, label: &str) -> Result<Vec<ProposalResponse>, bool> {
    let mut out = vec![];
    let mut cur: Option<u64> = None;
    loop {
        let p: cw3::ProposalListResponse = w
            .chain
            .query(label, &json!({"list_proposals":{"start_after":cur,"limit":30}}))?;
        let n = p.proposals.len();
        cur = p.proposals.last().map(|x| x.id);
        out.extend(p.proposals);
        if n < 30 || out.len() > 5000 {
            break;
        }
    }
    Ok(out)
}

fn list_votes(w: &WorldC, label: &str, id: u64) -> Result<Vec<cw3::VoteInfo>, bool> {
    let mut out = vec![];
    let mut cur: Option<String> = None;
    loop {
        let p: cw3::VoteListResponse = w
            .chain
            .query(label, &json!({"list_votes":{"proposal_id":id,"start_after":cur,"limit":30}}))?;
        let n = p.votes.len();
        cur = p.votes.last().map(|x| x.voter.clone());
        out.extend(p.votes);
        if n < 30 || out.len() > 5000 {
            break;
        }
    }
    Ok(out)
}

fn content_of(p: &ProposalResponse) -> Value {
    json!({
        "title": p.title, "description": p.description, "msgs": p.msgs, "threshold": p.threshold,
        "expires": p.expires, "proposer": p.proposer, "deposit": p.deposit,
    })
}

fn refund_msg(d: &cw3::DepositInfo, to: &str) -> CosmosMsg {
    match &d.denom {
        cw20::Denom::Native(denom) => CosmosMsg::Bank(BankMsg::Send {
            to_address: to.to_string(),
            amount: vec![Coin { denom: denom.clone(), amount: d.amount }],
        }),
        cw20::Denom::Cw20(addr) => CosmosMsg::Wasm(WasmMsg::Execute {
            contract_addr: addr.to_string(),
            msg: cosmwasm_std::to_json_binary(&cw20::Cw20ExecuteMsg::Transfer {
                recipient: to.to_string(),
                amount: d.amount,
            })
            .unwrap(),
            funds: vec![],
        }),
    }
}

fn retryable_payload(w: &WorldC, msgs: &[CosmosMsg]) -> bool {
    msgs.iter().all(|m| match m {
        CosmosMsg::Bank(BankMsg::Send { amount, .. }) => {
            amount.len() == 1 && amount[0].denom == PAY_DENOM && amount[0].amount.u128() <= 1000
        }
        CosmosMsg::Wasm(WasmMsg::Execute { contract_addr, funds, .. }) => w.sinks.contains(contract_addr) && funds.is_empty(),
        _ => false,
    })
}

impl WorldC {
    pub(crate) fn init_msigs(&mut self, out: &mut Vec<Violation>) {
        for mi in 0..self.msigs.len() {
            let label = self.msigs[mi].label.clone();
            if !self.msigs[mi].flex {
                // the fixed voter list: whatever instantiate accepted, as ListVoters reports it
                let mut voters = Members::new();
                let mut cur: Option<String> = None;
                loop {
                    let p: Result<cw3::VoterListResponse, bool> =
                        self.chain.query(&label, &json!({"list_voters":{"start_after":cur,"limit":30}}));
                    let p = match p {
                        Ok(p) => p,
                        Err(_) => break,
                    };
                    let n = p.voters.len();
                    cur = p.voters.last().map(|v| v.addr.clone());
                    for v in p.voters {
                        voters.insert(v.addr, v.weight);
                    }
                    if n < 30 {
                        break;
                    }
                }
                let th: Result<ThresholdResponse, bool> = self.chain.query(&label, &json!({"threshold":{}}));
                if let Ok(th) = th {
                    let sum: u128 = voters.values().map(|w| *w as u128).sum();
                    if sum != total_of(&th) as u128 {
                        let init_addrs: Vec<String> = self.msigs[mi].init["voters"]
                            .as_array()
                            .map(|a| a.iter().filter_map(|v| v["addr"].as_str().map(|s| s.to_string())).collect())
                            .unwrap_or_default();
                        let mut d = init_addrs.clone();
                        d.sort();
                        d.dedup();
                        let dup = d.len() != init_addrs.len();
                        if dup {
                            self.meter.hit("fixed_instantiated_with_repeated_voter");
                        }
                        self.viol(
                            out,
                            "C06",
                            "fixed/total-ne-sum-of-voters",
                            json!({"repeated_address_in_instantiate": dup}),
                            format!("threshold total_weight {} but ListVoters sums to {}", total_of(&th), sum),
                        );
                    }
                }
                self.msigs[mi].voters0 = voters;
            }
        }
        self.observe_msigs(None, out);
    }

    /// everything after a top-level transaction
    pub(crate) fn after_tx(&mut self, evs: &[Event], r: &TxResult, members_before: &Members, out: &mut Vec<Violation>) {
        self.check_group_frames(evs, r, out);
        self.book_donations(evs, r);
        let dep_before = self.deposit_balances();
        let _ = dep_before;
        self.check_msig_frames(evs, r, out);
        self.observe_group(!r.ok, out);
        self.observe_msigs(Some((evs, r, members_before)), out);
        if self.on("C09") && self.step_idx % 4 == 0 {
            self.probe_heights(out);
        }
    }

    fn deposit_balances(&self) -> BTreeMap<String, u128> {
        let mut m = BTreeMap::new();
        for ms in &self.msigs {
            if let Some(d) = &ms.deposit {
                let mut who: Vec<String> = self.users.clone();
                who.push(ms.addr.clone());
                for a in who {
                    let b = match &d.denom {
                        cw20::Denom::Native(dn) => self.chain.bank_balance(&a, dn),
                        cw20::Denom::Cw20(_) => self.token_balance(&a),
                    };
                    m.insert(a, b);
                }
            }
        }
        m
    }

    /// quiescence: a refund can only be paid from what the multisig holds; if an executed proposal spent the pot,
    /// the environment refills it (native) — for a cw20 deposit the caller just learns whether it is payable
    fn ensure_refund_payable(&mut self, m: &MsigState, t: &PropTrack, out: &mut Vec<Violation>) -> bool {
        let d = match &t.deposit {
            Some(d) => d.clone(),
            None => return true,
        };
        let need = d.amount.u128();
        match &d.denom {
            cw20::Denom::Native(dn) => {
                if self.chain.bank_balance(&m.addr, dn) < need {
                    self.chain.mint(&m.addr, vec![Coin::new(need, dn.clone())]);
                    self.meter.hit("quiescence_refilled_the_deposit_pot");
                    // the refill is not a transaction: take a fresh baseline for "a failed transaction changes nothing"
                    self.observe_msigs(None, out);
                }
                true
            }
            cw20::Denom::Cw20(_) => self.token_balance(&m.addr) >= need,
        }
    }

    fn executor_allows(&self, m: &MsigState, caller: &str, members_before: &Members) -> bool {
        match &m.executor {
            None => true,
            Some(v) if v.as_str() == Some("member") => {
                members_before.contains_key(caller) || self.cur_members.contains_key(caller)
            }
            Some(v) => v.get("only").and_then(|a| a.as_str()) == Some(caller),
        }
    }

    // ---------------------------------------------------------------- per-frame relations

    fn check_msig_frames(&mut self, evs: &[Event], r: &TxResult, out: &mut Vec<Violation>) {
        if self.msigs.is_empty() {
            return;
        }
        // membership is read at the instant of the call: a caller the group gained earlier in this very transaction
        // (a proposal that adds a member whose hook then relays an Execute) is a member for that call
        let mut members_before = self.cur_members.clone();
        for ev in evs {
            if let Event::Frame(f) = ev {
                if f.addr == self.group {
                    for sn in [&f.pre, &f.post] {
                        if let Some(c) = sn.cw4() {
                            if c.ok {
                                for (a, w) in crate::c_group::members_map(&c.members) {
                                    members_before.entry(a).or_insert(w);
                                }
                            }
                        }
                    }
                }
            }
        }
        for mi in 0..self.msigs.len() {
            let m = self.msigs[mi].clone();
            let mut expected: Vec<String> = vec![];
            let mut observed: Vec<String> = vec![];
            for ev in evs {
                match ev {
                    Event::Module(me) if me.sender == m.addr => {
                        // funds of wasm calls never occur (payloads carry no funds)
                        let s = match &me.msg {
                            ModMsg::Bank(b) => serde_json::to_string(&CosmosMsg::<cosmwasm_std::Empty>::Bank(b.clone())).unwrap(),
                            other => format!("{:?}", other),
                        };
                        observed.push(s);
                    }
                    Event::Frame(f) if f.sender == m.addr && f.entry == Entry::Execute => {
                        let c: CosmosMsg = CosmosMsg::Wasm(WasmMsg::Execute {
                            contract_addr: f.addr.clone(),
                            msg: cosmwasm_std::Binary::from(f.msg.clone()),
                            funds: f.funds.clone(),
                        });
                        observed.push(serde_json::to_string(&c).unwrap());
                    }
                    _ => {}
                }
                let f = match ev {
                    Event::Frame(f) if f.addr == m.addr && f.entry == Entry::Execute => f,
                    _ => continue,
                };
                let resp = match f.outcome.response() {
                    Some(r) => r.clone(),
                    None => {
                        if let Ok(v) = cosmwasm_std::from_json::<Value>(&f.msg) {
                            if v.get("execute").is_some() {
                                self.meter.flag("execute_refused");
                            }
                        }
                        continue;
                    }
                };
                let committed = r.ok && f.outcome.is_ok();
                if f.outcome.is_ok() {
                    for sm in &resp.messages {
                        expected.push(serde_json::to_string(&sm.msg).unwrap());
                    }
                }
                self.check_one_msig_frame(mi, f, &resp, committed, &members_before, out);
            }
            if r.ok {
                expected.sort();
                observed.sort();
                // a dispatched message that itself failed would have failed the transaction
                if expected != observed {
                    self.viol(
                        out,
                        "C05",
                        "dispatch-mismatch",
                        json!({"expected": expected.len(), "observed": observed.len()}),
                        format!(
                            "messages leaving {}: {} expected from the Responses of its successful calls, {} observed at modules/contracts",
                            m.label,
                            expected.len(),
                            observed.len()
                        ),
                    );
                }
            }
        }
    }

    fn check_one_msig_frame(
        &mut self,
        mi: usize,
        f: &Frame,
        resp: &cosmwasm_std::Response,
        committed: bool,
        members_before: &Members,
        out: &mut Vec<Violation>,
    ) {
        let m = self.msigs[mi].clone();
        let v: Value = match cosmwasm_std::from_json(&f.msg) {
            Ok(v) => v,
            Err(_) => return,
        };
        let kind = v.as_object().and_then(|o| o.keys().next().cloned()).unwrap_or_default();
        let pre_status = |id: u64| -> Option<String> {
            f.pre.cw3().and_then(|s| s.statuses.iter().find(|x| x.0 == id).map(|x| x.1.clone()))
        };
        for sm in &resp.messages {
            if sm.reply_on != ReplyOn::Never || sm.gas_limit.is_some() {
                self.viol(out, "C05", "dispatch-with-reply-or-gas", json!({"call": kind}), "multisig dispatches with reply/gas limit".into());
            }
        }
        let role = self.role(&f.sender);
        match kind.as_str() {
            "propose" => {
                // deposit plumbing only
                let mut want: Vec<CosmosMsg> = vec![];
                if let Some(d) = &m.deposit {
                    match &d.denom {
                        cw20::Denom::Cw20(tok) => {
                            want.push(CosmosMsg::Wasm(WasmMsg::Execute {
                                contract_addr: tok.to_string(),
                                msg: cosmwasm_std::to_json_binary(&cw20::Cw20ExecuteMsg::TransferFrom {
                                    owner: f.sender.clone(),
                                    recipient: m.addr.clone(),
                                    amount: d.amount,
                                })
                                .unwrap(),
                                funds: vec![],
                            }));
                            if !f.funds.is_empty() {
                                // native funds on a cw20-deposit multisig are not refused by the contract; the
                                // property only speaks about the configured token
                            }
                        }
                        cw20::Denom::Native(dn) => {
                            let exact = f.funds.len() == 1 && f.funds[0].denom == *dn && f.funds[0].amount == d.amount;
                            if !exact {
                                self.viol(
                                    out,
                                    "C15",
                                    "propose-accepted-with-improper-payment",
                                    json!({}),
                                    format!("Propose accepted with funds {:?}, deposit is {} {}", f.funds, d.amount, dn),
                                );
                            }
                        }
                    }
                }
                let got: Vec<CosmosMsg> = resp.messages.iter().map(|s| s.msg.clone()).collect();
                if got != want {
                    self.viol(
                        out,
                        if m.deposit.is_some() { "C15" } else { "C05" },
                        "propose-dispatch",
                        json!({}),
                        format!("Propose emitted {} messages, expected {} (deposit pull only)", got.len(), want.len()),
                    );
                }
                if committed {
                    self.meter.flag("propose_ok");
                    if m.deposit.is_some() {
                        self.meter.flag("deposit_taken");
                    }
                }
                self.meter.token("propose", role, if committed { "committed" } else { "rolled-back" }, 0);
            }
            "vote" | "member_changed_hook" => {
                if !resp.messages.is_empty() {
                    self.viol(out, "C05", "vote-dispatches", json!({"call": kind}), format!("{} emitted messages", kind));
                }
                if kind == "vote" {
                    let id = v["vote"]["proposal_id"].as_u64().unwrap_or(0);
                    let ps = pre_status(id);
                    // C15: whatever call returns a deposit, it goes to the proposer, once, and only for a proposal
                    // that was executed or (refunds enabled) has failed
                    if let Some(t) = m.props.get(&id).cloned() {
                        if let Some(d) = &t.deposit {
                            let refund = refund_msg(d, &t.proposer);
                            let n = resp.messages.iter().filter(|s| s.msg == refund).count();
                            if n > 0 {
                                let post_status = f.post.cw3().and_then(|s| s.statuses.iter().find(|x| x.0 == id).map(|x| x.1.clone()));
                                let failed = post_status.as_deref() == Some("Rejected");
                                if !(failed && d.refund_failed_proposals) {
                                    self.viol(
                                        out,
                                        "C15",
                                        "deposit-returned-improperly",
                                        json!({"call": "vote"}),
                                        format!("Vote on {} returned the deposit although the proposal is {:?} (refunds for failed proposals: {})", id, post_status, d.refund_failed_proposals),
                                    );
                                }
                                if committed {
                                    let tr = self.msigs[mi].props.get_mut(&id).unwrap();
                                    tr.refunded += n as u32;
                                    let rf = tr.refunded;
                                    if rf > 1 {
                                        self.viol(out, "C15", "refunded-twice", json!({"call": "vote"}), format!("deposit of {} returned {} times", id, rf));
                                    }
                                }
                            }
                        }
                    }
                    if let Some(t) = m.props.get(&id) {
                        let exp: Option<Expiration> = serde_json::from_value(t.content["expires"].clone()).ok();
                        if let Some(e) = exp {
                            if expired(&e, &f.block) {
                                self.viol(out, "C06", "vote-after-expiry", json!({}), format!("Vote on {} accepted after expiry", id));
                            }
                        }
                    }
                    if ps.as_deref() == Some("Executed") {
                        self.viol(out, "C06", "vote-on-executed", json!({}), format!("Vote on executed proposal {}", id));
                    }
                    if committed {
                        self.meter.flag("vote_ok");
                        let opt = match v["vote"]["vote"].as_str().unwrap_or("") {
                            "yes" => "Yes",
                            "no" => "No",
                            "abstain" => "Abstain",
                            "veto" => "Veto",
                            _ => "",
                        };
                        self.expect_ballots.push((mi, id, f.sender.clone(), opt.to_string()));
                    }
                    self.meter.token(
                        "vote",
                        role,
                        if committed { "committed" } else { "rolled-back" },
                        v["vote"]["vote"].as_str().map(|s| s.len() as u64).unwrap_or(0),
                    );
                }
            }
            "execute" => {
                let id = v["execute"]["proposal_id"].as_u64().unwrap_or(0);
                let ps = pre_status(id);
                if ps.as_deref() != Some("Passed") {
                    self.viol(
                        out,
                        "C05",
                        "execute-on-non-passed",
                        json!({"pre_status": ps}),
                        format!("Execute of {} succeeded with pre-status {:?}", id, ps),
                    );
                }
                if ps.as_deref() == Some("Executed") {
                    self.meter.hit("execute_on_executed_succeeded");
                }
                if m.flex && !self.executor_allows(&m, &f.sender, members_before) {
                    self.viol(
                        out,
                        "C05",
                        "execute-by-unauthorised",
                        json!({}),
                        format!("Execute by {} although executor is {:?}", role, m.executor),
                    );
                }
                if let Some(t) = m.props.get(&id) {
                    let mut want: Vec<CosmosMsg> = vec![];
                    if let Some(d) = &t.deposit {
                        want.push(refund_msg(d, &t.proposer));
                    }
                    want.extend(t.msgs.iter().cloned());
                    let got: Vec<CosmosMsg> = resp.messages.iter().map(|s| s.msg.clone()).collect();
                    if got != want {
                        let refund_ok = t.deposit.is_none() || got.first() == want.first();
                        self.viol(
                            out,
                            if refund_ok { "C05" } else { "C15" },
                            "execute-dispatch",
                            json!({}),
                            format!("Execute of {} emitted {} messages, the proposal has {} (+refund {})", id, got.len(), t.msgs.len(), t.deposit.is_some()),
                        );
                    }
                    if committed {
                        let tr = self.msigs[mi].props.get_mut(&id).unwrap();
                        tr.executed += 1;
                        let ex = tr.executed;
                        if tr.deposit.is_some() {
                            tr.refunded += 1;
                        }
                        let rf = tr.refunded;
                        let has_dep = tr.deposit.is_some();
                        if ex > 1 {
                            self.viol(out, "C05", "executed-twice", json!({}), format!("proposal {} executed {} times", id, ex));
                        }
                        if has_dep {
                            self.meter.flag("deposit_refunded");
                            if rf > 1 {
                                self.viol(out, "C15", "refunded-twice", json!({}), format!("deposit of {} returned {} times", id, rf));
                            }
                        }
                        self.meter.flag("execute_ok");
                    }
                }
                self.meter.token("execute", role, if committed { "committed" } else { "rolled-back" }, 0);
            }
            "close" => {
                let id = v["close"]["proposal_id"].as_u64().unwrap_or(0);
                let ps = pre_status(id);
                if matches!(ps.as_deref(), Some("Passed") | Some("Executed")) {
                    self.viol(out, "C05", "close-on-passed-or-executed", json!({"pre_status": ps}), format!("Close of {} with pre-status {:?}", id, ps));
                }
                if let Some(t) = m.props.get(&id) {
                    let exp: Option<Expiration> = serde_json::from_value(t.content["expires"].clone()).ok();
                    if let Some(e) = exp {
                        if !expired(&e, &f.block) {
                            self.viol(out, "C05", "close-before-expiry", json!({}), format!("Close of {} before expiry", id));
                        }
                    }
                    let mut want: Vec<CosmosMsg> = vec![];
                    if let Some(d) = &t.deposit {
                        if d.refund_failed_proposals {
                            want.push(refund_msg(d, &t.proposer));
                        }
                    }
                    let got: Vec<CosmosMsg> = resp.messages.iter().map(|s| s.msg.clone()).collect();
                    if got != want {
                        let is_refund_issue = t.deposit.is_some();
                        self.viol(
                            out,
                            if is_refund_issue { "C15" } else { "C05" },
                            "close-dispatch",
                            json!({}),
                            format!("Close of {} emitted {} messages, expected {}", id, got.len(), want.len()),
                        );
                    }
                    if committed && !want.is_empty() {
                        let tr = self.msigs[mi].props.get_mut(&id).unwrap();
                        tr.refunded += 1;
                        let rf = tr.refunded;
                        self.meter.flag("deposit_refunded");
                        if rf > 1 {
                            self.viol(out, "C15", "refunded-twice", json!({}), format!("deposit of {} returned {} times", id, rf));
                        }
                    }
                    if committed {
                        self.meter.flag("close_ok");
                    }
                }
                self.meter.token("close", role, if committed { "committed" } else { "rolled-back" }, 0);
            }
            _ => {}
        }
    }

    // ---------------------------------------------------------------- state after every event

    pub(crate) fn observe_msigs(&mut self, ctx: Option<(&[Event], &TxResult, &Members)>, out: &mut Vec<Violation>) {
        let block = self.chain.block();
        let tx_failed = ctx.map(|c| !c.1.ok).unwrap_or(false);
        let mut full = json!({});
        for mi in 0..self.msigs.len() {
            let label = self.msigs[mi].label.clone();
            let props = match list_proposals(self, &label) {
                Ok(p) => p,
                Err(abort) => {
                    // a listing that aborts: report under C03 (status cannot be read); discriminate the C06 consequence
                    let tainted = self.msigs[mi].props.values().any(|t| t.group_changed_earlier_in_block);
                    self.viol(
                        out,
                        "C03",
                        if abort { "proposal-query-abort" } else { "proposal-query-error" },
                        json!({"flex": self.msigs[mi].flex, "a_proposal_was_opened_after_a_same_block_group_change": tainted}),
                        format!("ListProposals on {} failed", label),
                    );
                    continue;
                }
            };
            // ids strictly increasing
            for w in props.windows(2) {
                if w[0].id >= w[1].id {
                    self.viol(out, "C05", "ids-not-increasing", json!({}), format!("{} then {}", w[0].id, w[1].id));
                }
            }
            let n = props.len();
            // the three views of a proposal (Proposal{id}, ListProposals, ReverseProposals) must tell the same story
            let rev: Vec<ProposalResponse> = self
                .chain
                .query::<cw3::ProposalListResponse>(&label, &json!({"reverse_proposals":{"start_before": null, "limit": 30}}))
                .map(|r| r.proposals)
                .unwrap_or_default();
            for rp in &rev {
                // C05: an observer who reads only the reverse listing must see the lifecycle move forward too
                if let Some(last) = self.msigs[mi].props.get(&rp.id).map(|t| t.last_status.clone()) {
                    let now = format!("{:?}", rp.status);
                    let allowed = last == "New"
                        || last == now
                        || matches!(
                            (last.as_str(), now.as_str()),
                            ("Open", "Passed") | ("Open", "Rejected") | ("Open", "Executed") | ("Passed", "Executed")
                        );
                    if !allowed {
                        self.viol(
                            out,
                            "C05",
                            "status-moved-backwards",
                            json!({"from": last, "to": now, "view": "reverse-listing"}),
                            format!("proposal {} went {} -> {} in ReverseProposals", rp.id, last, now),
                        );
                    }
                }
                if let Some(lp) = props.iter().find(|x| x.id == rp.id) {
                    if lp != rp {
                        self.viol(
                            out,
                            "C03",
                            "proposal-views-disagree",
                            json!({"views": "list-vs-reverse"}),
                            format!("proposal {}: ListProposals says {:?}, ReverseProposals says {:?}", rp.id, lp.status, rp.status),
                        );
                    }
                }
            }
            let mut snapshot_json = vec![];
            for (pi, p) in props.iter().enumerate() {
                let known = self.msigs[mi].props.contains_key(&p.id);
                if !known {
                    self.new_proposal(mi, p, ctx, &block, out);
                }
                let just_voted = self.expect_ballots.iter().any(|e| e.0 == mi && e.1 == p.id);
                let deep = just_voted || n <= 10 || pi + 10 >= n || matches!(p.status, Status::Open | Status::Passed);
                let votes = if deep {
                    match list_votes(self, &label, p.id) {
                        Ok(v) => Some(v),
                        Err(_) => {
                            self.viol(out, "C03", "votes-query-error", json!({}), format!("ListVotes {} failed", p.id));
                            None
                        }
                    }
                } else {
                    None
                };
                if deep {
                    match self.chain.query::<ProposalResponse>(&label, &json!({"proposal":{"proposal_id": p.id}})) {
                        Ok(pp) => {
                            if pp != *p {
                                self.viol(
                                    out,
                                    "C03",
                                    "proposal-views-disagree",
                                    json!({"views": "point-vs-list"}),
                                    format!("proposal {}: Proposal{{}} says {:?}, ListProposals says {:?}", p.id, pp.status, p.status),
                                );
                            }
                            // every view of a proposal is held to what was fixed at its creation (the listing is
                            // checked in check_proposal; here the point query)
                            if let Some(t) = self.msigs[mi].props.get(&p.id).cloned() {
                                if let Ok(th0) = serde_json::from_value::<ThresholdResponse>(t.content["threshold"].clone()) {
                                    if total_of(&pp.threshold) != total_of(&th0) {
                                        self.viol(
                                            out,
                                            "C06",
                                            "total-altered-after-creation",
                                            json!({"view": "point-query"}),
                                            format!("proposal {}: Proposal{{}} reports total weight {} but it was opened against {}", p.id, total_of(&pp.threshold), total_of(&th0)),
                                        );
                                    }
                                    if pp.threshold != th0 || serde_json::to_value(&pp.msgs).ok() != Some(t.content["msgs"].clone()) || serde_json::to_value(pp.expires).ok() != Some(t.content["expires"].clone()) {
                                        self.viol(
                                            out,
                                            "C05",
                                            "content-changed",
                                            json!({"view": "point-query"}),
                                            format!("proposal {}: Proposal{{}} reports content / threshold / expiry other than at creation", p.id),
                                        );
                                    }
                                }
                            }
                        }
                        Err(abort) => {
                            let tainted = self.msigs[mi].props.get(&p.id).map(|t| t.group_changed_earlier_in_block).unwrap_or(false);
                            self.viol(
                                out,
                                "C03",
                                if abort { "proposal-query-abort" } else { "proposal-query-error" },
                                json!({"flex": self.msigs[mi].flex, "a_proposal_was_opened_after_a_same_block_group_change": tainted}),
                                format!("Proposal{{{}}} failed", p.id),
                            )
                        }
                    }
                }
                self.check_proposal(mi, p, votes.as_deref(), &block, out);
                snapshot_json.push(json!({"id": p.id, "status": format!("{:?}", p.status), "votes": votes.as_ref().map(|v| v.len())}));
            }
            // a proposal never disappears
            let listed: Vec<u64> = props.iter().map(|p| p.id).collect();
            let missing: Vec<u64> = self.msigs[mi].props.keys().filter(|id| !listed.contains(id)).cloned().collect();
            if !missing.is_empty() && !tx_failed {
                self.viol(out, "C05", "proposal-disappeared", json!({}), format!("{:?}", missing));
            }
            full[label] = json!(snapshot_json);
        }
        // C06: a committed Vote left exactly the ballot that was cast
        let exp = std::mem::take(&mut self.expect_ballots);
        for (mi, id, voter, opt) in exp {
            if let Some(t) = self.msigs.get(mi).and_then(|m| m.props.get(&id)) {
                let got = t.ballots.get(&voter).map(|b| b.0.clone());
                if got.as_deref() != Some(opt.as_str()) {
                    self.viol(
                        out,
                        "C06",
                        "ballot-not-recorded-as-cast",
                        json!({}),
                        format!("a committed Vote {} by {} on proposal {} left ballot {:?}", opt, self.role(&voter), id, got),
                    );
                }
            }
        }
        full["deposits"] = json!(self.deposit_balances().into_iter().map(|(k, v)| (k, v.to_string())).collect::<BTreeMap<String, String>>());
        if tx_failed {
            if let Some(prev) = &self.last_full_obs {
                // ballot counts are only listed for deeply inspected proposals: compare them where both
                // observations have them, statuses and deposit balances always
                let mut a = prev.clone();
                let mut b = full.clone();
                for m in &self.msigs {
                    if let (Some(x), Some(y)) = (a.get_mut(&m.label).and_then(|v| v.as_array_mut()), b.get_mut(&m.label).and_then(|v| v.as_array_mut())) {
                        for (px, py) in x.iter_mut().zip(y.iter_mut()) {
                            if px["votes"].is_null() || py["votes"].is_null() {
                                px["votes"] = Value::Null;
                                py["votes"] = Value::Null;
                            }
                        }
                    }
                }
                if a != b {
                    self.viol(
                        out,
                        "C05",
                        "failed-tx-changed-proposals",
                        json!({}),
                        "a failed transaction changed proposal statuses, ballots or deposit balances".into(),
                    );
                }
            }
        }
        // C15: multisig deposit-token balance moves only by deposits taken and refunds
        self.last_full_obs = Some(full);
    }

    fn new_proposal(
        &mut self,
        mi: usize,
        p: &ProposalResponse,
        ctx: Option<(&[Event], &TxResult, &Members)>,
        block: &BlockInfo,
        out: &mut Vec<Violation>,
    ) {
        let m = self.msigs[mi].clone();
        if p.id != m.max_id + 1 {
            self.viol(out, "C05", "id-not-previous-plus-one", json!({}), format!("new proposal id {} after {}", p.id, m.max_id));
        }
        let (snapshot, changed_earlier, cur_total, cur_w) = if m.flex {
            let mut members_before = ctx.map(|c| c.2.clone()).unwrap_or_else(|| self.cur_members.clone());
            // "just before the Propose": a group change made earlier in this very transaction (an executed proposal
            // that first updates the group and then proposes) counts — take the group as its last completed call
            // before the Propose frame left it
            if let Some((evs, _, _)) = ctx {
                let mut last_group: Option<Members> = None;
                for ev in evs.iter() {
                    if let Event::Frame(f) = ev {
                        if f.addr == self.group && f.outcome.is_ok() {
                            if let Some(c) = f.post.cw4() {
                                if c.ok {
                                    last_group = Some(crate::c_group::members_map(&c.members));
                                }
                            }
                        }
                        if f.addr == m.addr && f.entry == Entry::Execute && f.outcome.is_ok() {
                            let is_propose = cosmwasm_std::from_json::<Value>(&f.msg).ok().map(|v| v.get("propose").is_some()).unwrap_or(false);
                            if is_propose {
                                break;
                            }
                        }
                    }
                }
                if let Some(g) = last_group {
                    members_before = g;
                }
            }
            let changed = self.block_start_members != members_before;
            let cur_total: u128 = members_before.values().map(|w| *w as u128).sum();
            let cw = members_before.get(p.proposer.as_str()).cloned();
            (self.block_start_members.clone(), changed, cur_total, cw)
        } else {
            let s = m.voters0.clone();
            let t: u128 = s.values().map(|w| *w as u128).sum();
            let cw = s.get(p.proposer.as_str()).cloned();
            (s, false, t, cw)
        };
        if changed_earlier {
            self.meter.hit("proposal_opened_in_block_that_already_changed_the_group");
        }
        let snapshot_total: u128 = snapshot.values().map(|w| *w as u128).sum();
        // expiry bound
        if let Some(mvp) = m.max_voting_period {
            let max = match mvp {
                Duration::Height(h) => Expiration::AtHeight(block.height + h),
                Duration::Time(t) => Expiration::AtTime(block.time.plus_seconds(t)),
            };
            let ok = match (&p.expires, &max) {
                (Expiration::AtHeight(a), Expiration::AtHeight(b)) => a <= b,
                (Expiration::AtTime(a), Expiration::AtTime(b)) => a <= b,
                _ => false,
            };
            if !ok {
                self.viol(
                    out,
                    "C05",
                    "expiry-beyond-max-voting-period",
                    json!({}),
                    format!("proposal {} expires {:?}, maximum is {:?}", p.id, p.expires, max),
                );
            }
            match p.expires {
                Expiration::AtHeight(h) => self.deadlines_h.push(h),
                Expiration::AtTime(t) => self.deadlines_t.push(t.nanos()),
                _ => {}
            }
        }
        // C05: a new proposal carries the multisig's configured threshold rule
        if let Ok(cfg_th) = self.chain.query::<ThresholdResponse>(&m.label, &json!({"threshold":{}})) {
            let same_rule = match (&cfg_th, &p.threshold) {
                (ThresholdResponse::AbsoluteCount { weight: a, .. }, ThresholdResponse::AbsoluteCount { weight: b, .. }) => a == b,
                (ThresholdResponse::AbsolutePercentage { percentage: a, .. }, ThresholdResponse::AbsolutePercentage { percentage: b, .. }) => a == b,
                (
                    ThresholdResponse::ThresholdQuorum { threshold: a, quorum: qa, .. },
                    ThresholdResponse::ThresholdQuorum { threshold: b, quorum: qb, .. },
                ) => a == b && qa == qb,
                _ => false,
            };
            if !same_rule {
                self.viol(
                    out,
                    "C05",
                    "proposal-threshold-ne-config",
                    json!({}),
                    format!("proposal {} was created with {:?}, the multisig is configured with {:?}", p.id, p.threshold, cfg_th),
                );
            }
        }
        // C05: the stored proposal is exactly what the (single) committed Propose of this transaction asked for
        if let Some((evs, r, _)) = ctx {
            if r.ok {
                let proposes: Vec<&Frame> = evs
                    .iter()
                    .filter_map(|e| match e {
                        Event::Frame(f) if f.addr == m.addr && f.entry == Entry::Execute && f.outcome.is_ok() => Some(f),
                        _ => None,
                    })
                    .filter(|f| cosmwasm_std::from_json::<Value>(&f.msg).map(|v| v.get("propose").is_some()).unwrap_or(false))
                    .collect();
                if proposes.len() == 1 {
                    let f = proposes[0];
                    if let Ok(v) = cosmwasm_std::from_json::<Value>(&f.msg) {
                        let req = &v["propose"];
                        let req_msgs: Vec<CosmosMsg> = serde_json::from_value(req["msgs"].clone()).unwrap_or_default();
                        let same = req["title"].as_str() == Some(p.title.as_str())
                            && req["description"].as_str() == Some(p.description.as_str())
                            && req_msgs == p.msgs
                            && f.sender == p.proposer.as_str();
                        if !same {
                            self.viol(
                                out,
                                "C05",
                                "proposal-content-ne-request",
                                json!({}),
                                format!("proposal {} was stored with {} messages / title {:?}; the Propose call submitted {} messages / title {:?}", p.id, p.msgs.len(), p.title, req_msgs.len(), req["title"]),
                            );
                        }
                        // requested deadline honoured: min(latest, now + max_voting_period); Never means the maximum
                        if let (Some(mvp), Ok(latest)) = (m.max_voting_period, serde_json::from_value::<Option<Expiration>>(req["latest"].clone())) {
                            let max = match mvp {
                                Duration::Height(h) => Expiration::AtHeight(f.block.height + h),
                                Duration::Time(t) => Expiration::AtTime(f.block.time.plus_seconds(t)),
                            };
                            let want = match (latest, max) {
                                (None, mx) | (Some(Expiration::Never {}), mx) => Some(mx),
                                (Some(Expiration::AtHeight(a)), Expiration::AtHeight(b)) => Some(Expiration::AtHeight(a.min(b))),
                                (Some(Expiration::AtTime(a)), Expiration::AtTime(b)) => Some(Expiration::AtTime(if a < b { a } else { b })),
                                _ => None,
                            };
                            if let Some(w) = want {
                                if w != p.expires {
                                    self.viol(
                                        out,
                                        "C05",
                                        "expiry-ne-request",
                                        json!({}),
                                        format!("proposal {} expires {:?}; requested latest {:?} with maximum {:?} gives {:?}", p.id, p.expires, req["latest"], max, w),
                                    );
                                }
                            }
                        }
                    }
                }
            }
        }
        let t = PropTrack {
            id: p.id,
            created_height: block.height,
            created_block: block.clone(),
            snapshot,
            snapshot_total,
            content: content_of(p),
            msgs: p.msgs.clone(),
            proposer: p.proposer.to_string(),
            ballots: BTreeMap::new(),
            last_status: "New".into(),
            executed: 0,
            refunded: 0,
            deposit: p.deposit.clone(),
            group_changed_earlier_in_block: changed_earlier,
            cur_total_at_propose: cur_total,
            cur_proposer_weight: cur_w,
            voted_down_early: false,
            final_seen: 0,
        };
        self.msigs[mi].props.insert(p.id, t);
        self.msigs[mi].max_id = self.msigs[mi].max_id.max(p.id);
    }

    fn check_proposal(
        &mut self,
        mi: usize,
        p: &ProposalResponse,
        votes: Option<&[cw3::VoteInfo]>,
        block: &BlockInfo,
        out: &mut Vec<Violation>,
    ) {
        let flex = self.msigs[mi].flex;
        let t = match self.msigs[mi].props.get(&p.id) {
            Some(t) => t.clone(),
            None => return,
        };
        let status = format!("{:?}", p.status);
        // C05: content fixed at creation
        let c = content_of(p);
        if c != t.content {
            self.viol(out, "C05", "content-changed", json!({}), format!("proposal {} content / threshold / expiry changed", p.id));
        }
        // C05: lifecycle
        let allowed = match (t.last_status.as_str(), status.as_str()) {
            ("New", _) => true,
            (a, b) if a == b => true,
            ("Open", "Passed") | ("Open", "Rejected") | ("Open", "Executed") | ("Passed", "Executed") => true,
            _ => false,
        };
        if !allowed {
            self.viol(
                out,
                "C05",
                "status-moved-backwards",
                json!({"from": t.last_status, "to": status}),
                format!("proposal {} went {} -> {}", p.id, t.last_status, status),
            );
        }
        if (p.status == Status::Executed) != (t.executed > 0) {
            self.viol(
                out,
                "C05",
                "executed-status-vs-history",
                json!({"status": status, "committed_executes": t.executed}),
                format!("proposal {} reports {} but {} committed Execute calls were seen", p.id, status, t.executed),
            );
        }
        match p.status {
            Status::Passed => self.meter.flag("status_passed"),
            Status::Rejected => self.meter.flag("status_rejected"),
            _ => {}
        }
        let is_exp = expired(&p.expires, block);
        let total = total_of(&p.threshold);
        if let Some(votes) = votes {
            let mut tally = Tally::default();
            let mut ballots: BTreeMap<String, (String, u64)> = BTreeMap::new();
            for v in votes {
                let w = v.weight as u128;
                match v.vote {
                    cw3::Vote::Yes => tally.yes += w,
                    cw3::Vote::No => tally.no += w,
                    cw3::Vote::Abstain => tally.abstain += w,
                    cw3::Vote::Veto => tally.veto += w,
                }
                if ballots.insert(v.voter.clone(), (format!("{:?}", v.vote), v.weight)).is_some() {
                    self.viol(out, "C06", "two-ballots-for-one-voter", json!({}), format!("{} on {}", v.voter, p.id));
                }
            }
            // C06 ------------------------------------------------------------
            let kind = if flex { "flex" } else { "fixed" };
            if total as u128 != t.snapshot_total {
                let total_is_current = total as u128 == t.cur_total_at_propose;
                self.viol(
                    out,
                    "C06",
                    &format!("{}/total-ne-snapshot-sum", kind),
                    json!({
                        "group_changed_earlier_in_same_block": t.group_changed_earlier_in_block,
                        "total_equals_group_total_just_before_propose": total_is_current,
                        "repeated_address_in_instantiate": !flex,
                    }),
                    format!(
                        "proposal {}: threshold total_weight {} but the snapshot (start of block {}) sums to {}",
                        p.id, total, t.created_height, t.snapshot_total
                    ),
                );
            }
            for (voter, (vote, w)) in &ballots {
                let sw = t.snapshot.get(voter).cloned();
                let is_proposer = *voter == t.proposer;
                let want = sw.unwrap_or(0);
                if *w != want {
                    let is_cur = is_proposer && Some(*w) == t.cur_proposer_weight;
                    self.viol(
                        out,
                        "C06",
                        &format!("{}/ballot-weight-ne-snapshot", kind),
                        json!({
                            "group_changed_earlier_in_same_block": t.group_changed_earlier_in_block,
                            "is_proposer": is_proposer,
                            "weight_equals_weight_just_before_propose": is_cur,
                        }),
                        format!(
                            "proposal {}: ballot of {} has weight {}, snapshot weight is {:?}",
                            p.id,
                            self.role(voter),
                            w,
                            sw
                        ),
                    );
                }
                if !is_proposer && *w == 0 {
                    self.viol(out, "C06", &format!("{}/zero-weight-ballot", kind), json!({}), format!("{} voted {} with weight 0 on {}", self.role(voter), vote, p.id));
                }
                if let Some(old) = t.ballots.get(voter) {
                    if old != &(vote.clone(), *w) {
                        self.viol(out, "C06", "ballot-changed", json!({}), format!("ballot of {} on {} changed {:?} -> {:?}", voter, p.id, old, (vote, w)));
                    }
                }
            }
            for voter in t.ballots.keys() {
                if !ballots.contains_key(voter) {
                    self.viol(out, "C06", "ballot-disappeared", json!({}), format!("{} on {}", voter, p.id));
                }
            }
            if tally.total() > total as u128 {
                self.viol(
                    out,
                    "C06",
                    &format!("{}/ballots-outweigh-total", kind),
                    json!({"group_changed_earlier_in_same_block": t.group_changed_earlier_in_block}),
                    format!("proposal {}: ballots sum to {} > total_weight {}", p.id, tally.total(), total),
                );
            }
            if t.ballots.len() < ballots.len() && t.snapshot != self.cur_members && flex {
                self.meter.hit("vote_after_group_changed_since_proposal");
            }
            // C03 ------------------------------------------------------------
            if tally.total() <= total as u128 && p.status != Status::Executed && p.status != Status::Pending {
                let strict = verdict(&p.threshold, &tally, is_exp, false);
                let len = verdict(&p.threshold, &tally, is_exp, true);
                if tally.yes == 0 && tally.abstain > 0 && tally.total() == tally.abstain {
                    self.meter.hit("all_abstain_tally");
                }
                if !status_ok(p.status, &strict) && !status_ok(p.status, &len) {
                    let base_zero = match &p.threshold {
                        ThresholdResponse::AbsolutePercentage { total_weight, .. } => (*total_weight as u128).saturating_sub(tally.abstain) == 0,
                        ThresholdResponse::ThresholdQuorum { total_weight, .. } => {
                            if is_exp {
                                tally.total() - tally.abstain == 0
                            } else {
                                (*total_weight as u128).saturating_sub(tally.abstain) == 0
                            }
                        }
                        _ => false,
                    };
                    let class = if p.status == Status::Passed && tally.yes == 0 {
                        "passed-with-zero-yes"
                    } else if p.status == Status::Passed {
                        "passed-below-threshold"
                    } else if p.status == Status::Rejected {
                        "rejected-but-can-still-pass"
                    } else if strict.passed {
                        "open-but-passed"
                    } else {
                        "open-but-expired"
                    };
                    self.viol(
                        out,
                        "C03",
                        class,
                        json!({"threshold_kind": kind_of(&p.threshold), "base_is_zero": base_zero, "yes": tally.yes.to_string()}),
                        format!(
                            "{} proposal {}: status {:?} but ballots yes={} no={} abstain={} veto={} total_weight={} expired={} threshold={:?}",
                            kind, p.id, p.status, tally.yes, tally.no, tally.abstain, tally.veto, total, is_exp, p.threshold
                        ),
                    );
                }
            }
            if p.status == Status::Rejected && !is_exp {
                if let Some(tr) = self.msigs[mi].props.get_mut(&p.id) {
                    tr.voted_down_early = true;
                }
                self.meter.hit("voted_down_before_expiry");
            }
            if let Some(tr) = self.msigs[mi].props.get_mut(&p.id) {
                tr.ballots = ballots;
            }
        }
        if let Some(tr) = self.msigs[mi].props.get_mut(&p.id) {
            tr.last_status = status;
        }
    }

    // ---------------------------------------------------------------- quiescence

    pub(crate) fn quiesce(&mut self, out: &mut Vec<Violation>) {
        if !self.group_ok {
            return;
        }
        // clock past every known deadline
        let b = self.chain.block();
        let mut max_h = b.height;
        let mut max_t = b.time.seconds();
        for m in &self.msigs {
            for t in m.props.values() {
                if let Ok(e) = serde_json::from_value::<Expiration>(t.content["expires"].clone()) {
                    match e {
                        Expiration::AtHeight(h) => max_h = max_h.max(h),
                        Expiration::AtTime(t) => max_t = max_t.max(t.seconds()),
                        _ => {}
                    }
                }
            }
        }
        let dh = (max_h - b.height) + 2;
        let dt = (max_t - b.time.seconds()) + 2;
        if self.msigs.iter().any(|m| !m.props.is_empty()) {
            self.apply_inner(&Step::Block { dh, dt, dn: 0 }, out);
        }
        if !out.is_empty() {
            return;
        }
        if self.on("C05") || self.on("C15") {
            for mi in 0..self.msigs.len() {
                let m = self.msigs[mi].clone();
                let ids: Vec<u64> = m.props.keys().cloned().collect();
                let many = ids.len() > 12;
                for id in ids {
                    if many && m.props[&id].deposit.is_none() {
                        continue;
                    }
                    let t = self.msigs[mi].props[&id].clone();
                    match t.last_status.as_str() {
                        "Passed" => {
                            // an authorised caller
                            // an authorised caller that can actually sign (a user, not a contract)
                            let member_user: Option<String> = self.cur_members.keys().find(|k| self.users.contains(*k)).cloned();
                            let is_member_needed = m.executor.as_ref().map(|v| v.as_str() == Some("member")).unwrap_or(false);
                            let caller = match &m.executor {
                                Some(v) if v.get("only").is_some() => v["only"].as_str().unwrap().to_string(),
                                _ if is_member_needed => match member_user {
                                    Some(u) => u,
                                    None => continue,
                                },
                                _ => self.users[0].clone(),
                            };
                            if !self.users.contains(&caller) {
                                continue;
                            }
                            // the refund must be payable: top the pot up if an earlier proposal spent it
                            let payable = self.ensure_refund_payable(&m, &t, out);
                            let retry = retryable_payload(self, &t.msgs) && payable;
                            let step = Step::Tx {
                                sender: caller,
                                target: m.label.clone(),
                                msg: json!({"execute":{"proposal_id": id}}),
                                funds: vec![],
                                fault: None,
                                script: vec![],
                            };
                            let before = self.msigs[mi].props[&id].executed;
                            self.apply_inner(&step, out);
                            if !out.is_empty() {
                                return;
                            }
                            let after = self.msigs[mi].props[&id].executed;
                            if retry && after != before + 1 {
                                self.viol(
                                    out,
                                    "C05",
                                    "passed-proposal-not-executable-at-quiescence",
                                    json!({}),
                                    format!("{} proposal {} is Passed, faults are off, but Execute by an authorised caller failed", m.label, id),
                                );
                                return;
                            }
                            if retry {
                                self.meter.hit("quiescence_execute");
                            }
                        }
                        "Open" | "Rejected" => {
                            if t.deposit.as_ref().map(|d| d.refund_failed_proposals).unwrap_or(false) && t.refunded == 0 {
                                if !self.ensure_refund_payable(&m, &t, out) {
                                    continue;
                                }
                                let step = Step::Tx {
                                    sender: self.users[0].clone(),
                                    target: m.label.clone(),
                                    msg: json!({"close":{"proposal_id": id}}),
                                    funds: vec![],
                                    fault: None,
                                    script: vec![],
                                };
                                self.apply_inner(&step, out);
                                if !out.is_empty() {
                                    return;
                                }
                                let rf = self.msigs[mi].props[&id].refunded;
                                if rf != 1 {
                                    self.viol(
                                        out,
                                        "C15",
                                        "failed-proposal-deposit-not-recoverable",
                                        json!({"refunds_enabled": true, "cause": if t.voted_down_early { "voted_down_before_expiry" } else if expired(&serde_json::from_value::<Expiration>(t.content["expires"].clone()).unwrap_or(Expiration::Never {}), &t.created_block) { "created_already_expired" } else { "other" }}),
                                        format!(
                                            "{} proposal {} failed (voted down early: {}), refunds for failed proposals are enabled, it is expired, but Close does not return the deposit",
                                            m.label, id, t.voted_down_early
                                        ),
                                    );
                                    return;
                                }
                                self.meter.hit("quiescence_close_refund");
                            }
                        }
                        _ => {}
                    }
                }
                // executed proposals always got their deposit back, exactly once
                for t in self.msigs[mi].props.values() {
                    if t.deposit.is_some() && t.executed > 0 && t.refunded != 1 {
                        let (id, rf) = (t.id, t.refunded);
                        self.viol(out, "C15", "executed-without-single-refund", json!({}), format!("proposal {} executed, refunded {} times", id, rf));
                        return;
                    }
                }
            }
        }
        if self.is_stake && self.on("C10") {
            self.quiesce_stake(out);
        }
    }

    fn quiesce_stake(&mut self, out: &mut Vec<Violation>) {
        let (tpw, _, period) = match self.stake_cfg {
            Some(c) => c,
            None => return,
        };
        if tpw == 0 {
            return;
        }
        // remove hooks' influence: hooks are Sinks that accept by default
        let obs = match &self.last_group_obs {
            Some(o) => o.clone(),
            None => return,
        };
        for (i, a) in self.universe.clone().iter().enumerate() {
            if obs.staked[i] > 0 {
                let step = Step::Tx {
                    sender: a.clone(),
                    target: "group".into(),
                    msg: json!({"unbond":{"tokens": obs.staked[i].to_string()}}),
                    funds: vec![],
                    fault: None,
                    script: vec![],
                };
                self.apply_inner(&step, out);
                if !out.is_empty() {
                    return;
                }
            }
        }
        let (dh, dt) = match period {
            Duration::Height(h) => (h + 1, 0),
            Duration::Time(t) => (1, t + 1),
        };
        self.apply_inner(&Step::Block { dh, dt, dn: 0 }, out);
        // every pending claim (including older ones) is mature now unless its period is longer: jump far
        let far = self.deadlines_h.iter().max().cloned().unwrap_or(0);
        let far_t = self.deadlines_t.iter().max().cloned().unwrap_or(0);
        let b = self.chain.block();
        let ddh = far.saturating_sub(b.height) + 1;
        let ddt = (far_t / crate::util::NS).saturating_sub(b.time.seconds()) + 2;
        self.apply_inner(&Step::Block { dh: ddh, dt: ddt, dn: 0 }, out);
        for a in self.universe.clone() {
            let has = self.unbonds.get(&a).map(|r| r.iter().any(|x| !x.paid && x.amount > 0)).unwrap_or(false);
            if has {
                let step = Step::Tx { sender: a.clone(), target: "group".into(), msg: json!({"claim":{}}), funds: vec![], fault: None, script: vec![] };
                self.apply_inner(&step, out);
                if !out.is_empty() {
                    return;
                }
            }
        }
        let bal = self.stake_token_balance(&self.group.clone());
        let still_owed: u128 = self
            .unbonds
            .values()
            .flat_map(|v| v.iter())
            .filter(|r| !r.paid)
            .map(|r| r.amount)
            .sum();
        let staked_left: u128 = self.last_group_obs.as_ref().map(|o| o.staked.iter().sum()).unwrap_or(0);
        if bal != self.donated.saturating_add(still_owed).saturating_add(staked_left) || still_owed > 0 {
            self.viol(
                out,
                "C10",
                "exit-incomplete-at-quiescence",
                json!({}),
                format!(
                    "after everybody unbonded and claimed the contract holds {}, donations {}, unpaid claims {}, stakes left {}",
                    bal, self.donated, still_owed, staked_left
                ),
            );
        } else {
            self.meter.hit("quiescence_full_exit");
        }
    }

    // ---------------------------------------------------------------- C20

    pub(crate) fn probe_c20(&mut self, full: bool, out: &mut Vec<Violation>) {
        if !self.group_ok {
            return;
        }
        let limits: Vec<Option<u32>> = if full { LIMITS.to_vec() } else { vec![None, Some(1), Some(30), Some(31)] };
        let mut pages = 0u64;
        let mut viols: Vec<(String, String, String)> = vec![];
        {
            // group members
            let dump = self.chain.dump("group");
            let expected: Vec<(String, u64)> = rawkeys::entries(&dump, cw4::MEMBERS_KEY)
                .into_iter()
                .filter_map(|(k, v)| Some((String::from_utf8(k).ok()?, cosmwasm_std::from_json::<u64>(&v).ok()?)))
                .collect();
            if expected.len() > 30 {
                self.meter.hit("c20_listing_over_30");
            }
            let chain = &self.chain;
            let r = check_paging::<(String, u64), String>(
                &expected,
                &|cur, lim| {
                    chain
                        .query::<cw4::MemberListResponse>("group", &json!({"list_members":{"start_after":cur,"limit":lim}}))
                        .map(|r| r.members.into_iter().map(|m| (m.addr, m.weight)).collect())
                },
                &|i| i.0.clone(),
                &limits,
                &mut pages,
            );
            if let Err((c, d)) = r {
                viols.push((if self.is_stake { "cw4-stake-list-members".into() } else { "cw4-group-list-members".into() }, c, d));
            }
            // cursors that are valid addresses but not (or no longer) members
            let stale: Vec<String> = self.universe.iter().filter(|a| !expected.iter().any(|e| &e.0 == *a)).take(4).cloned().collect();
            let r = check_stale_cursors::<(String, u64), String>(
                &expected,
                &|cur, lim| {
                    chain
                        .query::<cw4::MemberListResponse>("group", &json!({"list_members":{"start_after":cur,"limit":lim}}))
                        .map(|r| r.members.into_iter().map(|m| (m.addr, m.weight)).collect())
                },
                &|i| i.0.clone(),
                &stale,
            );
            if let Err((c, d)) = r {
                viols.push((if self.is_stake { "cw4-stake-list-members".into() } else { "cw4-group-list-members".into() }, c, d));
            }
            for (a, w) in expected.iter().take(40) {
                if let Ok(q) = chain.query::<cw4::MemberResponse>("group", &json!({"member":{"addr": a, "at_height": null}})) {
                    if q.weight != Some(*w) {
                        viols.push((if self.is_stake { "cw4-stake-list-members".into() } else { "cw4-group-list-members".into() }, "listed-item-ne-point-query".into(), format!("{}: listed {} but Member says {:?}", a, w, q.weight)));
                    }
                }
            }
        }
        for m in self.msigs.clone() {
            let dump = self.chain.dump(&m.label);
            let chain = &self.chain;
            let name = if m.flex { "cw3-flex" } else { "cw3-fixed" };
            // proposals forward / reverse
            let ids: Vec<u64> = rawkeys::entries(&dump, "proposals")
                .into_iter()
                .filter_map(|(k, _)| rawkeys::u64_of(&k))
                .collect();
            if ids.len() > 30 {
                self.meter.hit("c20_listing_over_30");
            }
            let r = check_paging::<u64, u64>(
                &ids,
                &|cur, lim| {
                    chain
                        .query::<cw3::ProposalListResponse>(&m.label, &json!({"list_proposals":{"start_after":cur,"limit":lim}}))
                        .map(|r| r.proposals.into_iter().map(|p| p.id).collect())
                },
                &|i| *i,
                &limits,
                &mut pages,
            );
            if let Err((c, d)) = r {
                viols.push((format!("{}-list-proposals", name), c, d));
            }
            for id in ids.iter().rev().take(12) {
                if chain.query::<cw3::ProposalResponse>(&m.label, &json!({"proposal":{"proposal_id": id}})).map(|p| p.id) != Ok(*id) {
                    viols.push((format!("{}-list-proposals", name), "listed-item-ne-point-query".into(), format!("proposal {} is listed but Proposal{{}} does not return it", id)));
                }
            }
            let rev: Vec<u64> = ids.iter().rev().cloned().collect();
            let r = check_paging::<u64, u64>(
                &rev,
                &|cur, lim| {
                    chain
                        .query::<cw3::ProposalListResponse>(&m.label, &json!({"reverse_proposals":{"start_before":cur,"limit":lim}}))
                        .map(|r| r.proposals.into_iter().map(|p| p.id).collect())
                },
                &|i| *i,
                &limits,
                &mut pages,
            );
            if let Err((c, d)) = r {
                viols.push((format!("{}-reverse-proposals", name), c, d));
            }
            // votes of the proposals with most ballots
            let mut by_prop: BTreeMap<u64, Vec<(String, u64)>> = BTreeMap::new();
            for (k, v) in rawkeys::entries(&dump, "votes") {
                if let Some((a, b)) = rawkeys::split2(&k) {
                    if let (Some(id), Ok(voter), Ok(bal)) = (rawkeys::u64_of(&a), String::from_utf8(b), cosmwasm_std::from_json::<cw3::Ballot>(&v)) {
                        by_prop.entry(id).or_default().push((voter, bal.weight));
                    }
                }
            }
            let mut pids: Vec<u64> = by_prop.keys().cloned().collect();
            pids.sort_by_key(|id| std::cmp::Reverse(by_prop[id].len()));
            for id in pids.into_iter().take(2) {
                let exp = by_prop[&id].clone();
                for (voter, w) in exp.iter().take(20) {
                    if let Ok(q) = chain.query::<cw3::VoteResponse>(&m.label, &json!({"vote":{"proposal_id": id, "voter": voter}})) {
                        if q.vote.as_ref().map(|v| v.weight) != Some(*w) {
                            viols.push((format!("{}-list-votes", name), "listed-item-ne-point-query".into(), format!("proposal {} voter {}: listed weight {} but Vote says {:?}", id, voter, w, q.vote)));
                        }
                    }
                }
                let r = check_paging::<(String, u64), String>(
                    &exp,
                    &|cur, lim| {
                        chain
                            .query::<cw3::VoteListResponse>(&m.label, &json!({"list_votes":{"proposal_id":id,"start_after":cur,"limit":lim}}))
                            .map(|r| r.votes.into_iter().map(|v| (v.voter, v.weight)).collect())
                    },
                    &|i| i.0.clone(),
                    &limits,
                    &mut pages,
                );
                if let Err((c, d)) = r {
                    viols.push((format!("{}-list-votes", name), c, d));
                }
            }
            // voters
            let exp_voters: Vec<(String, u64)> = if m.flex {
                let gd = self.chain.dump("group");
                rawkeys::entries(&gd, cw4::MEMBERS_KEY)
                    .into_iter()
                    .filter_map(|(k, v)| Some((String::from_utf8(k).ok()?, cosmwasm_std::from_json::<u64>(&v).ok()?)))
                    .collect()
            } else {
                rawkeys::entries(&dump, "voters")
                    .into_iter()
                    .filter_map(|(k, v)| Some((String::from_utf8(k).ok()?, cosmwasm_std::from_json::<u64>(&v).ok()?)))
                    .collect()
            };
            let r = check_paging::<(String, u64), String>(
                &exp_voters,
                &|cur, lim| {
                    chain
                        .query::<cw3::VoterListResponse>(&m.label, &json!({"list_voters":{"start_after":cur,"limit":lim}}))
                        .map(|r| r.voters.into_iter().map(|v| (v.addr, v.weight)).collect())
                },
                &|i| i.0.clone(),
                &limits,
                &mut pages,
            );
            if let Err((c, d)) = r {
                viols.push((format!("{}-list-voters", name), c, d));
            }
            let stale: Vec<String> = self.universe.iter().filter(|a| !exp_voters.iter().any(|e| &e.0 == *a)).take(4).cloned().collect();
            let r = check_stale_cursors::<(String, u64), String>(
                &exp_voters,
                &|cur, lim| {
                    chain
                        .query::<cw3::VoterListResponse>(&m.label, &json!({"list_voters":{"start_after":cur,"limit":lim}}))
                        .map(|r| r.voters.into_iter().map(|v| (v.addr, v.weight)).collect())
                },
                &|i| i.0.clone(),
                &stale,
            );
            if let Err((c, d)) = r {
                viols.push((format!("{}-list-voters", name), c, d));
            }
            for (a, w) in exp_voters.iter().take(30) {
                if let Ok(q) = chain.query::<cw3::VoterResponse>(&m.label, &json!({"voter":{"address": a}})) {
                    if q.weight != Some(*w) {
                        viols.push((format!("{}-list-voters", name), "listed-item-ne-point-query".into(), format!("{}: listed {} but Voter says {:?}", a, w, q.weight)));
                    }
                }
            }
        }
        for (l, c, d) in viols {
            self.viol(out, "C20", &format!("{}/{}", l, c), json!({"list": l}), d);
        }
        *self.meter.probes.entry("c20_pages_walked").or_insert(0) += pages;
        self.meter.flag("c20_probed");
    }
}

#[allow(dead_code)]
fn unused(_: Kind) {}
