//! The simulated chain: cw-multi-test `App` (wasmd stub) with every seam owned by the simulator.
//!
//! * `Probe` wraps every contract: records each frame (entry point, sender, message bytes,
//!   in-frame pre/post snapshots, full `Response` or error class), injects early/late failures,
//!   turns panics into aborts.
//! * `FaultyBank` delegates to the real `BankKeeper`, records and can fail on plan.
//! * `RecModule` records staking / distribution / gov / stargate / ibc messages.
//! * `Sink` is the programmable counterpart contract.
//! * `Chain` is the top-level driver: every tx / sudo / query under `catch_unwind`.
use std::cell::{Cell, RefCell};
use std::collections::{BTreeMap, VecDeque};
use std::panic::{catch_unwind, AssertUnwindSafe};
use std::rc::Rc;

use anyhow::{anyhow, Result as AnyResult};
use cosmwasm_std::testing::{MockApi, MockStorage};
use cosmwasm_std::{
    Addr, AnyMsg, Api, BankMsg, BankQuery, Binary, BlockInfo, Coin, CosmosMsg, CustomMsg,
    CustomQuery, Deps, DepsMut, DistributionMsg, Empty, Env, GovMsg, GrpcQuery, IbcMsg, IbcQuery,
    MessageInfo, Querier, Reply, Response, StakingMsg, StakingQuery, Storage, Timestamp, WasmMsg,
};
use cw_multi_test::{
    App, AppBuilder, AppResponse, Bank, BankKeeper, BankSudo, Contract, CosmosRouter,
    Distribution, Executor, FailingModule, Gov, Ibc, Module, Stargate, Staking, StakingSudo,
    WasmKeeper,
};
use serde::de::DeserializeOwned;
use serde::{Deserialize, Serialize};

use crate::snaps::Snap;
use crate::util::Fnv;

pub type SimApp = App<
    FaultyBank,
    MockApi,
    MockStorage,
    FailingModule<Empty, Empty, Empty>,
    WasmKeeper<Empty, Empty>,
    RecStaking,
    RecDistr,
    RecIbc,
    RecGov,
    RecStargate,
>;

#[derive(Clone, Copy, PartialEq, Eq, Debug, Serialize, Deserialize, PartialOrd, Ord)]
pub enum Kind {
    Cw20,
    Whitelist,
    Subkeys,
    Fixed,
    Flex,
    Group,
    Stake,
    Ics20,
    Sink,
}

#[derive(Clone, Copy, PartialEq, Eq, Debug, Serialize, Deserialize)]
pub enum Entry {
    Instantiate,
    Execute,
    Sudo,
    Reply,
    Migrate,
}

#[derive(Clone, Copy, PartialEq, Eq, Debug, Serialize, Deserialize)]
pub enum FaultMode {
    /// callee never runs
    Early,
    /// callee runs to completion, then its whole sub-transaction is reported failed
    Late,
}

/// "fail the nth dispatch to `target` inside the next top-level transaction"
#[derive(Clone, PartialEq, Eq, Debug, Serialize, Deserialize)]
pub struct Fault {
    /// contract address, or "bank" / "staking" / "distribution" / "gov" / "stargate" / "ibc"
    pub target: String,
    pub nth: u32,
    pub mode: FaultMode,
}

#[derive(Clone, Debug)]
pub enum Outcome {
    Ok(Response<Empty>),
    Err,
    Abort,
    FaultEarly,
    /// ran to completion (result kept), then reported as failed
    FaultLate(Option<Response<Empty>>),
}

impl Outcome {
    pub fn is_ok(&self) -> bool {
        matches!(self, Outcome::Ok(_))
    }
    pub fn class(&self) -> &'static str {
        match self {
            Outcome::Ok(_) => "ok",
            Outcome::Err => "err",
            Outcome::Abort => "abort",
            Outcome::FaultEarly => "fault-early",
            Outcome::FaultLate(_) => "fault-late",
        }
    }
    /// the response the real code produced (also when the frame was failed late)
    pub fn response(&self) -> Option<&Response<Empty>> {
        match self {
            Outcome::Ok(r) => Some(r),
            Outcome::FaultLate(Some(r)) => Some(r),
            _ => None,
        }
    }
}

#[derive(Clone, Debug)]
pub struct Frame {
    pub tx: u64,
    pub kind: Kind,
    pub addr: String,
    pub entry: Entry,
    pub sender: String,
    pub funds: Vec<Coin>,
    pub msg: Vec<u8>,
    pub block: BlockInfo,
    pub pre: Snap,
    pub post: Snap,
    pub outcome: Outcome,
}

#[derive(Clone, Debug)]
pub enum ModMsg {
    Bank(BankMsg),
    Staking(StakingMsg),
    Distribution(DistributionMsg),
    Gov(GovMsg),
    Stargate(AnyMsg),
    Ibc(IbcMsg),
}

#[derive(Clone, Debug)]
pub struct ModEvent {
    pub tx: u64,
    pub sender: String,
    pub msg: ModMsg,
    pub ok: bool,
    pub block: BlockInfo,
}

#[derive(Clone, Debug)]
pub enum Event {
    Frame(Frame),
    Module(ModEvent),
}

#[derive(Clone, PartialEq, Eq, Debug, Serialize, Deserialize)]
pub enum SinkAct {
    Accept,
    Fail,
    /// return a response carrying these messages (re-entrancy / relays); JSON `CosmosMsg`
    Call(Vec<serde_json::Value>),
}

pub type Snapper = Box<dyn Fn(Kind, &str, &dyn Contract<Empty>, Deps, &Env) -> Snap>;

/// shared between the driver and every seam of one run (single-threaded)
pub struct Ctl {
    pub log: RefCell<Vec<Event>>,
    pub tx: Cell<u64>,
    pub fault: RefCell<Option<Fault>>,
    pub counters: RefCell<BTreeMap<String, u32>>,
    pub fault_fired: Cell<bool>,
    pub sink_script: RefCell<BTreeMap<String, VecDeque<SinkAct>>>,
    pub snapper: RefCell<Option<Snapper>>,
    pub stats: RefCell<BTreeMap<&'static str, u64>>,
    /// (transaction, contract frames run in it so far): the simulator's stand-in for the block gas limit
    pub frames_in_tx: Cell<(u64, u32)>,
}

/// A real chain stops a transaction when its gas runs out; cw-multi-test has no gas. Without a bound a contract
/// that keeps re-entering itself recurses until the simulator's stack is gone. 160 contract frames in one
/// transaction is far beyond anything the unmodified suite does in these worlds (the most is a few dozen).
pub const MAX_FRAMES_PER_TX: u32 = 160;

impl Ctl {
    pub fn new() -> Rc<Ctl> {
        Rc::new(Ctl {
            log: RefCell::new(vec![]),
            tx: Cell::new(0),
            fault: RefCell::new(None),
            counters: RefCell::new(BTreeMap::new()),
            fault_fired: Cell::new(false),
            sink_script: RefCell::new(BTreeMap::new()),
            snapper: RefCell::new(None),
            stats: RefCell::new(BTreeMap::new()),
            frames_in_tx: Cell::new((0, 0)),
        })
    }
    pub fn bump(&self, k: &'static str) {
        *self.stats.borrow_mut().entry(k).or_insert(0) += 1;
    }
    /// count a dispatch to `target`; returns the fault mode if the armed fault hits it
    fn hit(&self, target: &str) -> Option<FaultMode> {
        // every dispatch is counted (the single-fault sweep enumerates these sites)
        let mut c = self.counters.borrow_mut();
        let n = c.entry(target.to_string()).or_insert(0);
        *n += 1;
        let f = self.fault.borrow();
        let f = f.as_ref()?;
        if f.target != target {
            return None;
        }
        if *n == f.nth && !self.fault_fired.get() {
            self.fault_fired.set(true);
            match f.mode {
                FaultMode::Early => self.bump("fault_early_fired"),
                FaultMode::Late => self.bump("fault_late_fired"),
            }
            Some(f.mode)
        } else {
            None
        }
    }
    fn snap(&self, kind: Kind, addr: &str, inner: &dyn Contract<Empty>, deps: Deps, env: &Env) -> Snap {
        match self.snapper.borrow().as_ref() {
            Some(f) => f(kind, addr, inner, deps, env),
            None => Snap::None,
        }
    }
}

// ------------------------------------------------------------------------------------------
// Probe

pub struct Probe {
    pub kind: Kind,
    pub inner: Box<dyn Contract<Empty>>,
    pub ctl: Rc<Ctl>,
}

impl Probe {
    #[allow(clippy::too_many_arguments)]
    fn run<F>(
        &self,
        entry: Entry,
        mut deps: DepsMut,
        env: Env,
        sender: String,
        funds: Vec<Coin>,
        msg: Vec<u8>,
        f: F,
    ) -> AnyResult<Response<Empty>>
    where
        F: FnOnce(&dyn Contract<Empty>, DepsMut, Env) -> AnyResult<Response<Empty>>,
    {
        let addr = env.contract.address.to_string();
        let pre = self.ctl.snap(self.kind, &addr, &*self.inner, deps.as_ref(), &env);
        let fault = match entry {
            Entry::Execute | Entry::Sudo | Entry::Instantiate | Entry::Migrate => {
                self.ctl.hit(&addr)
            }
            Entry::Reply => None,
        };
        let (t, n) = self.ctl.frames_in_tx.get();
        let n = if t == self.ctl.tx.get() { n + 1 } else { 1 };
        self.ctl.frames_in_tx.set((self.ctl.tx.get(), n));
        let outcome = if n > MAX_FRAMES_PER_TX {
            // out of gas: the frame fails before it runs
            self.ctl.bump("tx_out_of_gas");
            Outcome::Err
        } else if fault == Some(FaultMode::Early) {
            Outcome::FaultEarly
        } else {
            let r = catch_unwind(AssertUnwindSafe(|| {
                f(&*self.inner, deps.branch(), env.clone())
            }));
            match r {
                Err(_) => {
                    self.ctl.bump("abort_in_contract");
                    Outcome::Abort
                }
                Ok(Err(_)) => {
                    if fault == Some(FaultMode::Late) {
                        Outcome::FaultLate(None)
                    } else {
                        Outcome::Err
                    }
                }
                Ok(Ok(resp)) => {
                    if fault == Some(FaultMode::Late) {
                        Outcome::FaultLate(Some(resp))
                    } else {
                        Outcome::Ok(resp)
                    }
                }
            }
        };
        let post = self.ctl.snap(self.kind, &addr, &*self.inner, deps.as_ref(), &env);
        let ret = match &outcome {
            Outcome::Ok(r) => Ok(r.clone()),
            Outcome::Err => Err(anyhow!("contract error")),
            Outcome::Abort => Err(anyhow!("abort")),
            Outcome::FaultEarly => Err(anyhow!("injected early failure")),
            Outcome::FaultLate(_) => Err(anyhow!("injected late failure")),
        };
        self.ctl.log.borrow_mut().push(Event::Frame(Frame {
            tx: self.ctl.tx.get(),
            kind: self.kind,
            addr,
            entry,
            sender,
            funds,
            msg,
            block: env.block.clone(),
            pre,
            post,
            outcome,
        }));
        ret
    }
}

impl Contract<Empty> for Probe {
    fn execute(&self, deps: DepsMut, env: Env, info: MessageInfo, msg: Vec<u8>) -> AnyResult<Response<Empty>> {
        let i2 = info.clone();
        let m2 = msg.clone();
        self.run(Entry::Execute, deps, env, info.sender.to_string(), info.funds.clone(), msg, move |c, d, e| {
            c.execute(d, e, i2, m2)
        })
    }
    fn instantiate(&self, deps: DepsMut, env: Env, info: MessageInfo, msg: Vec<u8>) -> AnyResult<Response<Empty>> {
        let i2 = info.clone();
        let m2 = msg.clone();
        self.run(Entry::Instantiate, deps, env, info.sender.to_string(), info.funds.clone(), msg, move |c, d, e| {
            c.instantiate(d, e, i2, m2)
        })
    }
    fn query(&self, deps: Deps, env: Env, msg: Vec<u8>) -> AnyResult<Binary> {
        self.inner.query(deps, env, msg)
    }
    fn sudo(&self, deps: DepsMut, env: Env, msg: Vec<u8>) -> AnyResult<Response<Empty>> {
        let m2 = msg.clone();
        self.run(Entry::Sudo, deps, env, String::new(), vec![], msg, move |c, d, e| c.sudo(d, e, m2))
    }
    fn reply(&self, deps: DepsMut, env: Env, msg: Reply) -> AnyResult<Response<Empty>> {
        // never put error text into logs: keep id and ok/err only
        let bytes = format!("{{\"id\":{},\"ok\":{}}}", msg.id, msg.result.is_ok()).into_bytes();
        self.run(Entry::Reply, deps, env, String::new(), vec![], bytes, move |c, d, e| c.reply(d, e, msg))
    }
    fn migrate(&self, deps: DepsMut, env: Env, msg: Vec<u8>) -> AnyResult<Response<Empty>> {
        let m2 = msg.clone();
        self.run(Entry::Migrate, deps, env, String::new(), vec![], msg, move |c, d, e| c.migrate(d, e, m2))
    }
}

// ------------------------------------------------------------------------------------------
// Sink: programmable counterpart contract. Never catches errors (commit rule).

pub struct Sink {
    pub ctl: Rc<Ctl>,
}

/// sudo side-door of the Sink, used only for storage surgery helpers (unused by default)
impl Contract<Empty> for Sink {
    fn execute(&self, _deps: DepsMut, env: Env, _info: MessageInfo, _msg: Vec<u8>) -> AnyResult<Response<Empty>> {
        let addr = env.contract.address.to_string();
        let act = self
            .ctl
            .sink_script
            .borrow_mut()
            .get_mut(&addr)
            .and_then(|q| q.pop_front())
            .unwrap_or(SinkAct::Accept);
        match act {
            SinkAct::Accept => Ok(Response::new()),
            SinkAct::Fail => {
                self.ctl.bump("sink_fail_fired");
                Err(anyhow!("sink refuses"))
            }
            SinkAct::Call(msgs) => {
                self.ctl.bump("sink_callback_fired");
                let mut r = Response::new();
                for m in msgs {
                    let cm: CosmosMsg<Empty> = serde_json::from_value(m)?;
                    r = r.add_message(cm);
                }
                Ok(r)
            }
        }
    }
    fn instantiate(&self, _d: DepsMut, _e: Env, _i: MessageInfo, _m: Vec<u8>) -> AnyResult<Response<Empty>> {
        Ok(Response::new())
    }
    fn query(&self, _d: Deps, _e: Env, _m: Vec<u8>) -> AnyResult<Binary> {
        Err(anyhow!("sink has no queries"))
    }
    fn sudo(&self, _d: DepsMut, _e: Env, _m: Vec<u8>) -> AnyResult<Response<Empty>> {
        Ok(Response::new())
    }
    fn reply(&self, _d: DepsMut, _e: Env, _m: Reply) -> AnyResult<Response<Empty>> {
        Err(anyhow!("sink never asks for replies"))
    }
    fn migrate(&self, _d: DepsMut, _e: Env, _m: Vec<u8>) -> AnyResult<Response<Empty>> {
        Ok(Response::new())
    }
}

// ------------------------------------------------------------------------------------------
// Bank with recording and faults

pub struct FaultyBank {
    pub inner: BankKeeper,
    pub ctl: Rc<Ctl>,
}

impl Bank for FaultyBank {}

impl Module for FaultyBank {
    type ExecT = BankMsg;
    type QueryT = BankQuery;
    type SudoT = BankSudo;

    fn execute<ExecC, QueryC>(
        &self,
        api: &dyn Api,
        storage: &mut dyn Storage,
        router: &dyn CosmosRouter<ExecC = ExecC, QueryC = QueryC>,
        block: &BlockInfo,
        sender: Addr,
        msg: BankMsg,
    ) -> AnyResult<AppResponse>
    where
        ExecC: CustomMsg + DeserializeOwned + 'static,
        QueryC: CustomQuery + DeserializeOwned + 'static,
    {
        let fault = self.ctl.hit("bank");
        let res = if fault == Some(FaultMode::Early) {
            Err(anyhow!("injected bank failure"))
        } else {
            let r = self
                .inner
                .execute(api, storage, router, block, sender.clone(), msg.clone());
            if fault == Some(FaultMode::Late) {
                Err(anyhow!("injected late bank failure"))
            } else {
                r
            }
        };
        self.ctl.log.borrow_mut().push(Event::Module(ModEvent {
            tx: self.ctl.tx.get(),
            sender: sender.to_string(),
            msg: ModMsg::Bank(msg),
            ok: res.is_ok(),
            block: block.clone(),
        }));
        res
    }

    fn query(
        &self,
        api: &dyn Api,
        storage: &dyn Storage,
        querier: &dyn Querier,
        block: &BlockInfo,
        request: BankQuery,
    ) -> AnyResult<Binary> {
        self.inner.query(api, storage, querier, block, request)
    }

    fn sudo<ExecC, QueryC>(
        &self,
        api: &dyn Api,
        storage: &mut dyn Storage,
        router: &dyn CosmosRouter<ExecC = ExecC, QueryC = QueryC>,
        block: &BlockInfo,
        msg: BankSudo,
    ) -> AnyResult<AppResponse>
    where
        ExecC: CustomMsg + DeserializeOwned + 'static,
        QueryC: CustomQuery + DeserializeOwned + 'static,
    {
        self.inner.sudo(api, storage, router, block, msg)
    }
}

// ------------------------------------------------------------------------------------------
// Recording modules

macro_rules! rec_module {
    ($name:ident, $exec:ty, $query:ty, $sudo:ty, $variant:ident, $tag:expr) => {
        pub struct $name {
            pub ctl: Rc<Ctl>,
        }
        impl Module for $name {
            type ExecT = $exec;
            type QueryT = $query;
            type SudoT = $sudo;
            fn execute<ExecC, QueryC>(
                &self,
                _api: &dyn Api,
                _storage: &mut dyn Storage,
                _router: &dyn CosmosRouter<ExecC = ExecC, QueryC = QueryC>,
                block: &BlockInfo,
                sender: Addr,
                msg: $exec,
            ) -> AnyResult<AppResponse>
            where
                ExecC: CustomMsg + DeserializeOwned + 'static,
                QueryC: CustomQuery + DeserializeOwned + 'static,
            {
                let fault = self.ctl.hit($tag);
                let ok = fault.is_none();
                self.ctl.log.borrow_mut().push(Event::Module(ModEvent {
                    tx: self.ctl.tx.get(),
                    sender: sender.to_string(),
                    msg: ModMsg::$variant(msg),
                    ok,
                    block: block.clone(),
                }));
                if ok {
                    Ok(AppResponse::default())
                } else {
                    Err(anyhow!("injected module failure"))
                }
            }
            fn query(
                &self,
                _api: &dyn Api,
                _storage: &dyn Storage,
                _querier: &dyn Querier,
                _block: &BlockInfo,
                request: $query,
            ) -> AnyResult<Binary> {
                rec_query($tag, &request)
            }
            fn sudo<ExecC, QueryC>(
                &self,
                _api: &dyn Api,
                _storage: &mut dyn Storage,
                _router: &dyn CosmosRouter<ExecC = ExecC, QueryC = QueryC>,
                _block: &BlockInfo,
                _msg: $sudo,
            ) -> AnyResult<AppResponse>
            where
                ExecC: CustomMsg + DeserializeOwned + 'static,
                QueryC: CustomQuery + DeserializeOwned + 'static,
            {
                Ok(AppResponse::default())
            }
        }
    };
}

fn rec_query<Q: std::fmt::Debug + Serialize>(tag: &str, q: &Q) -> AnyResult<Binary> {
    if tag == "ibc" {
        // only PortId is ever asked (cw20-ics20 `Port {}` query)
        let v = serde_json::to_value(q)?;
        if v.get("port_id").is_some() {
            return Ok(Binary::from(br#"{"port_id":"wasm.ics20"}"#.to_vec()));
        }
    }
    Err(anyhow!("query not served by recording module"))
}

rec_module!(RecStaking, StakingMsg, StakingQuery, StakingSudo, Staking, "staking");
rec_module!(RecDistr, DistributionMsg, Empty, Empty, Distribution, "distribution");
rec_module!(RecGov, GovMsg, Empty, Empty, Gov, "gov");
rec_module!(RecStargate, AnyMsg, GrpcQuery, Empty, Stargate, "stargate");
rec_module!(RecIbc, IbcMsg, IbcQuery, Empty, Ibc, "ibc");

impl Staking for RecStaking {}
impl Distribution for RecDistr {}
impl Gov for RecGov {}
impl Stargate for RecStargate {}
impl Ibc for RecIbc {}

// ------------------------------------------------------------------------------------------
// Driver

#[derive(Clone, Debug)]
pub struct TxResult {
    pub tx: u64,
    pub ok: bool,
    /// a panic escaped outside any contract frame (bank overflow, router `unimplemented!`, ...)
    pub aborted_outside: bool,
    pub data: Option<Binary>,
    /// index range into the event log
    pub ev_from: usize,
    pub ev_to: usize,
}

pub struct Chain {
    pub app: SimApp,
    pub ctl: Rc<Ctl>,
    /// label -> (address, kind)
    pub contracts: BTreeMap<String, (String, Kind)>,
    pub code_ids: BTreeMap<Kind, u64>,
    pub loghash: Fnv,
}

pub const GENESIS_HEIGHT: u64 = 1000;
pub const GENESIS_TIME: u64 = 1_700_000_000;

impl Chain {
    pub fn new() -> Chain {
        let ctl = Ctl::new();
        let app: SimApp = AppBuilder::new()
            .with_bank(FaultyBank {
                inner: BankKeeper::new(),
                ctl: ctl.clone(),
            })
            .with_staking(RecStaking { ctl: ctl.clone() })
            .with_distribution(RecDistr { ctl: ctl.clone() })
            .with_ibc(RecIbc { ctl: ctl.clone() })
            .with_gov(RecGov { ctl: ctl.clone() })
            .with_stargate(RecStargate { ctl: ctl.clone() })
            .with_block(BlockInfo {
                height: GENESIS_HEIGHT,
                time: Timestamp::from_seconds(GENESIS_TIME),
                chain_id: "sim-1".to_string(),
            })
            .build(|_, _, _| {});
        Chain {
            app,
            ctl,
            contracts: BTreeMap::new(),
            code_ids: BTreeMap::new(),
            loghash: Fnv::new(),
        }
    }

    pub fn set_snapper(&self, s: Snapper) {
        *self.ctl.snapper.borrow_mut() = Some(s);
    }

    pub fn mint(&mut self, to: &str, coins: Vec<Coin>) {
        let coins: Vec<Coin> = coins.into_iter().filter(|c| !c.amount.is_zero()).collect();
        if coins.is_empty() {
            return;
        }
        self.app
            .sudo(cw_multi_test::SudoMsg::Bank(BankSudo::Mint {
                to_address: to.to_string(),
                amount: coins,
            }))
            .expect("genesis mint");
    }

    pub fn store(&mut self, kind: Kind) -> u64 {
        if let Some(id) = self.code_ids.get(&kind) {
            return *id;
        }
        let inner = crate::contracts::real(kind, self.ctl.clone());
        let boxed: Box<dyn Contract<Empty>> = if kind == Kind::Sink {
            // the Sink is wrapped too, so that deliveries are recorded as frames
            Box::new(Probe {
                kind,
                inner,
                ctl: self.ctl.clone(),
            })
        } else {
            Box::new(Probe {
                kind,
                inner,
                ctl: self.ctl.clone(),
            })
        };
        let id = self.app.store_code(boxed);
        self.code_ids.insert(kind, id);
        id
    }

    pub fn addr(&self, label: &str) -> String {
        self.contracts
            .get(label)
            .map(|x| x.0.clone())
            .unwrap_or_else(|| label.to_string())
    }

    pub fn label_of(&self, addr: &str) -> Option<&str> {
        self.contracts
            .iter()
            .find(|(_, v)| v.0 == addr)
            .map(|(k, _)| k.as_str())
    }

    fn begin(&mut self, fault: Option<Fault>, script: &[(String, SinkAct)]) -> (u64, usize) {
        let tx = self.ctl.tx.get() + 1;
        self.ctl.tx.set(tx);
        *self.ctl.fault.borrow_mut() = fault;
        self.ctl.counters.borrow_mut().clear();
        self.ctl.fault_fired.set(false);
        let mut s = self.ctl.sink_script.borrow_mut();
        s.clear();
        for (sink, act) in script {
            let a = self.addr(sink);
            s.entry(a).or_default().push_back(act.clone());
        }
        (tx, self.ctl.log.borrow().len())
    }

    fn end(&mut self, tx: u64, from: usize, r: std::thread::Result<AnyResult<AppResponse>>) -> TxResult {
        *self.ctl.fault.borrow_mut() = None;
        self.ctl.sink_script.borrow_mut().clear();
        let to = self.ctl.log.borrow().len();
        let (ok, aborted_outside, data) = match r {
            Ok(Ok(resp)) => (true, false, resp.data),
            Ok(Err(_)) => (false, false, None),
            Err(_) => {
                self.ctl.bump("abort_outside_contract");
                (false, true, None)
            }
        };
        // event-log hash: structure only, never error text
        {
            let log = self.ctl.log.borrow();
            let h = &mut self.loghash;
            h.u64(tx);
            h.u64(ok as u64);
            for ev in &log[from..to] {
                match ev {
                    Event::Frame(f) => {
                        h.str("F");
                        h.str(&f.addr);
                        h.u64(f.entry as u64);
                        h.str(&f.sender);
                        h.bytes(&f.msg);
                        h.str(f.outcome.class());
                        if let Some(r) = f.outcome.response() {
                            h.bytes(&serde_json::to_vec(&r.messages).unwrap_or_default());
                            if let Some(d) = &r.data {
                                h.bytes(d.as_slice());
                            }
                        }
                    }
                    Event::Module(m) => {
                        h.str("M");
                        h.str(&m.sender);
                        h.str(&format!("{:?}", m.msg));
                        h.u64(m.ok as u64);
                    }
                }
            }
        }
        if std::env::var("CWSIM_TRACE").is_ok() {
            let log = self.ctl.log.borrow();
            eprintln!("tx {} ok={} aborted_outside={}", tx, ok, aborted_outside);
            for ev in &log[from..to] {
                match ev {
                    Event::Frame(f) => eprintln!(
                        "   frame {:?} {:?} {} sender={} msg={} -> {}",
                        f.kind,
                        f.entry,
                        &f.addr[f.addr.len().saturating_sub(6)..],
                        &f.sender[f.sender.len().saturating_sub(6)..],
                        String::from_utf8_lossy(&f.msg).chars().take(160).collect::<String>(),
                        f.outcome.class()
                    ),
                    Event::Module(m) => eprintln!("   module sender={} {:?} ok={}", &m.sender[m.sender.len().saturating_sub(6)..], m.msg, m.ok),
                }
            }
        }
        if ok {
            self.ctl.bump("tx_ok");
        } else {
            self.ctl.bump("tx_failed");
        }
        TxResult {
            tx,
            ok,
            aborted_outside,
            data,
            ev_from: from,
            ev_to: to,
        }
    }

    /// top-level transaction carrying one arbitrary CosmosMsg
    pub fn tx(&mut self, sender: &str, msg: CosmosMsg<Empty>, fault: Option<Fault>, script: &[(String, SinkAct)]) -> TxResult {
        if self.label_of(sender).is_some() {
            // a contract has no key and cannot sign a transaction: the chain rejects it before anything runs
            // (contracts act only through the messages their own calls return)
            let n = self.ctl.log.borrow().len();
            self.ctl.bump("tx_signed_by_contract_rejected");
            return TxResult { tx: self.ctl.tx.get(), ok: false, aborted_outside: false, data: None, ev_from: n, ev_to: n };
        }
        let (tx, from) = self.begin(fault, script);
        let app = &mut self.app;
        let r = catch_unwind(AssertUnwindSafe(|| {
            app.execute(Addr::unchecked(sender), msg)
        }));
        self.end(tx, from, r)
    }

    pub fn exec(
        &mut self,
        sender: &str,
        target: &str,
        msg: &serde_json::Value,
        funds: Vec<Coin>,
        fault: Option<Fault>,
        script: &[(String, SinkAct)],
    ) -> TxResult {
        let addr = self.addr(target);
        let bytes = serde_json::to_vec(msg).unwrap();
        self.tx(
            sender,
            CosmosMsg::Wasm(WasmMsg::Execute {
                contract_addr: addr,
                msg: Binary::from(bytes),
                funds,
            }),
            fault,
            script,
        )
    }

    pub fn instantiate(
        &mut self,
        kind: Kind,
        label: &str,
        sender: &str,
        msg: &serde_json::Value,
        funds: Vec<Coin>,
        admin: Option<String>,
    ) -> Result<String, TxResult> {
        let code_id = self.store(kind);
        let (tx, from) = self.begin(None, &[]);
        let bytes = serde_json::to_vec(msg).unwrap();
        let app = &mut self.app;
        let mut made: Option<String> = None;
        let r = catch_unwind(AssertUnwindSafe(|| {
            let m = CosmosMsg::Wasm(WasmMsg::Instantiate {
                admin,
                code_id,
                msg: Binary::from(bytes),
                funds,
                label: label.to_string(),
            });
            app.execute(Addr::unchecked(sender), m)
        }));
        let res = self.end(tx, from, r);
        if res.ok {
            // the address is in the last Instantiate frame of this tx
            let log = self.ctl.log.borrow();
            for ev in log[res.ev_from..res.ev_to].iter() {
                if let Event::Frame(f) = ev {
                    if f.entry == Entry::Instantiate && f.kind == kind {
                        made = Some(f.addr.clone());
                        break;
                    }
                }
            }
        }
        match made {
            Some(a) if res.ok => {
                self.contracts.insert(label.to_string(), (a.clone(), kind));
                Ok(a)
            }
            _ => Err(res),
        }
    }

    pub fn sudo(&mut self, target: &str, msg: &serde_json::Value, fault: Option<Fault>) -> TxResult {
        let addr = self.addr(target);
        let (tx, from) = self.begin(fault, &[]);
        let app = &mut self.app;
        let r = catch_unwind(AssertUnwindSafe(|| {
            app.wasm_sudo(Addr::unchecked(addr), msg)
        }));
        self.end(tx, from, r)
    }

    pub fn migrate(&mut self, admin: &str, target: &str, msg: &serde_json::Value) -> TxResult {
        let addr = self.addr(target);
        let kind = self.contracts.get(target).map(|x| x.1).unwrap_or(Kind::Sink);
        let code_id = self.store(kind);
        let bytes = serde_json::to_vec(msg).unwrap();
        self.tx(
            admin,
            CosmosMsg::Wasm(WasmMsg::Migrate {
                contract_addr: addr,
                new_code_id: code_id,
                msg: Binary::from(bytes),
            }),
            None,
            &[],
        )
    }

    pub fn advance(&mut self, dh: u64, dt: u64) {
        self.advance_ns(dh, dt, 0)
    }

    pub fn advance_ns(&mut self, dh: u64, dt: u64, dn: u64) {
        let mut b = self.app.block_info();
        b.height = b.height.saturating_add(dh);
        b.time = Timestamp::from_nanos(b.time.nanos().saturating_add(dt.saturating_mul(1_000_000_000)).saturating_add(dn));
        self.loghash.u64(dn);
        self.app.set_block(b);
        self.loghash.u64(dh);
        self.loghash.u64(dt);
    }

    pub fn block(&self) -> BlockInfo {
        self.app.block_info()
    }

    /// smart query under catch_unwind. Err(true) = abort, Err(false) = ordinary error
    pub fn query<T: DeserializeOwned>(&self, target: &str, msg: &serde_json::Value) -> Result<T, bool> {
        let addr = self.addr(target);
        let app = &self.app;
        let r = catch_unwind(AssertUnwindSafe(|| {
            app.wrap().query_wasm_smart::<T>(addr, msg)
        }));
        match r {
            Ok(Ok(v)) => Ok(v),
            Ok(Err(_)) => Err(false),
            Err(_) => Err(true),
        }
    }

    pub fn raw(&self, target: &str, key: &[u8]) -> Option<Vec<u8>> {
        let addr = self.addr(target);
        self.app.wrap().query_wasm_raw(addr, key.to_vec()).ok().flatten()
    }

    pub fn dump(&self, target: &str) -> Vec<(Vec<u8>, Vec<u8>)> {
        let addr = self.addr(target);
        self.app.dump_wasm_raw(&Addr::unchecked(addr))
    }

    pub fn bank_balance(&self, who: &str, denom: &str) -> u128 {
        let a = self.addr(who);
        self.app
            .wrap()
            .query_balance(a, denom)
            .map(|c| c.amount.u128())
            .unwrap_or(0)
    }

    pub fn events(&self, r: &TxResult) -> Vec<Event> {
        self.ctl.log.borrow()[r.ev_from..r.ev_to].to_vec()
    }

    /// drop old events to keep memory flat (monitors consume per step)
    /// dispatch sites (target -> number of dispatches) of the most recent transaction
    pub fn last_sites(&self) -> BTreeMap<String, u32> {
        self.ctl.counters.borrow().clone()
    }

    pub fn stats(&self) -> BTreeMap<&'static str, u64> {
        self.ctl.stats.borrow().clone()
    }
}

/// helper for in-frame snapshots: run a query on the wrapped contract, swallowing errors and aborts
pub fn inner_query<T: DeserializeOwned>(
    inner: &dyn Contract<Empty>,
    deps: Deps,
    env: &Env,
    msg: &serde_json::Value,
) -> Option<T> {
    let bytes = serde_json::to_vec(msg).ok()?;
    let r = catch_unwind(AssertUnwindSafe(|| inner.query(deps, env.clone(), bytes)));
    match r {
        Ok(Ok(b)) => cosmwasm_std::from_json::<T>(&b).ok(),
        _ => None,
    }
}
