//! World trait and shared per-run bookkeeping.
use std::collections::{BTreeMap, BTreeSet};

use serde_json::Value;

use crate::chain::Chain;
use crate::trace::{Step, Violation};
use crate::util::{Fnv, Rng};

/// reach probes, abstract states and the abstract trace signature of one run
#[derive(Default, Clone)]
pub struct Meter {
    pub probes: BTreeMap<&'static str, u64>,
    pub states: BTreeSet<u64>,
    pub transitions: BTreeSet<u64>,
    last_state: u64,
    sig: Option<Fnv>,
    pub sig_len: u64,
    pub nontrivial_flags: BTreeSet<&'static str>,
    pub sim_blocks: u64,
    pub sim_seconds: u64,
}

impl Meter {
    pub fn hit(&mut self, p: &'static str) {
        *self.probes.entry(p).or_insert(0) += 1;
    }
    pub fn flag(&mut self, f: &'static str) {
        self.nontrivial_flags.insert(f);
    }
    /// one token of the abstract trace signature: (event kind, actor role, outcome class, bucket)
    pub fn token(&mut self, kind: &str, role: &str, outcome: &str, bucket: u64) {
        let h = self.sig.get_or_insert_with(Fnv::new);
        h.str(kind);
        h.str(role);
        h.str(outcome);
        h.u64(bucket);
        self.sig_len += 1;
    }
    pub fn signature(&self) -> u64 {
        self.sig.map(|h| h.0).unwrap_or(0)
    }
    pub fn state(&mut self, s: u64) {
        self.states.insert(s);
        let mut h = Fnv::new();
        h.u64(self.last_state);
        h.u64(s);
        self.transitions.insert(h.0);
        self.last_state = s;
    }
}

pub fn bucket(x: u128) -> u64 {
    match x {
        0 => 0,
        1 => 1,
        2..=1000 => 2,
        1001..=0xFFFF_FFFF_FFFF_FFFE => 3,
        0xFFFF_FFFF_FFFF_FFFF => 4,
        x if x == u128::MAX => 6,
        _ => 5,
    }
}

pub trait World: Sized {
    const NAME: &'static str;
    /// draw a concrete configuration (fully serialisable) for property `prop`
    fn gen_config(rng: &mut Rng, prop: &str, thorough: bool) -> Value;
    /// build the chain and instantiate everything; `prop` selects which monitors raise alarms
    /// ("ALL" = every monitor of this world)
    fn build(config: &Value, prop: &str) -> Self;
    fn planned_steps(&self) -> usize;
    fn gen_step(&mut self, rng: &mut Rng) -> Step;
    fn apply(&mut self, step: &Step, out: &mut Vec<Violation>);
    fn chain(&self) -> &Chain;
    fn meter(&self) -> &Meter;
    /// per-property rule for "non-trivial run"
    fn nontrivial(&self, prop: &str) -> bool;
}
