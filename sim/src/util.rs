//! Small deterministic helpers: PRNG wrapper, FNV hash, address factory.
use rand::{Rng as _, SeedableRng};
use rand_chacha::ChaCha8Rng;

pub struct Rng(pub ChaCha8Rng);

impl Rng {
    pub fn new(seed: u64) -> Self {
        Rng(ChaCha8Rng::seed_from_u64(seed))
    }
    pub fn below(&mut self, n: u64) -> u64 {
        if n == 0 {
            0
        } else {
            self.0.gen_range(0..n)
        }
    }
    pub fn range(&mut self, lo: u64, hi_incl: u64) -> u64 {
        lo + self.below(hi_incl - lo + 1)
    }
    pub fn chance(&mut self, num: u64, den: u64) -> bool {
        self.below(den) < num
    }
    pub fn pick<'a, T>(&mut self, xs: &'a [T]) -> &'a T {
        &xs[self.below(xs.len() as u64) as usize]
    }
    pub fn u128(&mut self) -> u128 {
        self.0.gen::<u128>()
    }
    /// weighted index
    pub fn weighted(&mut self, w: &[u32]) -> usize {
        let tot: u64 = w.iter().map(|x| *x as u64).sum();
        let mut r = self.below(tot.max(1));
        for (i, x) in w.iter().enumerate() {
            if r < *x as u64 {
                return i;
            }
            r -= *x as u64;
        }
        w.len() - 1
    }
}

/// derive a sub-seed from (master, property, run index); splitmix style, no std hasher involved
pub fn derive_seed(master: u64, tag: &str, idx: u64) -> u64 {
    let mut h = Fnv::new();
    h.u64(master);
    h.bytes(tag.as_bytes());
    h.u64(idx);
    let mut z = h.0.wrapping_add(0x9E3779B97F4A7C15);
    z = (z ^ (z >> 30)).wrapping_mul(0xBF58476D1CE4E5B9);
    z = (z ^ (z >> 27)).wrapping_mul(0x94D049BB133111EB);
    z ^ (z >> 31)
}

#[derive(Clone, Copy)]
pub struct Fnv(pub u64);
impl Fnv {
    pub fn new() -> Self {
        Fnv(0xcbf29ce484222325)
    }
    pub fn bytes(&mut self, b: &[u8]) {
        for x in b {
            self.0 ^= *x as u64;
            self.0 = self.0.wrapping_mul(0x100000001b3);
        }
        // length terminator so that concatenations differ
        self.0 ^= 0xff;
        self.0 = self.0.wrapping_mul(0x100000001b3);
    }
    pub fn u64(&mut self, v: u64) {
        self.bytes(&v.to_le_bytes());
    }
    pub fn str(&mut self, s: &str) {
        self.bytes(s.as_bytes());
    }
}

pub fn addr_of(name: &str) -> String {
    cosmwasm_std::testing::MockApi::default()
        .addr_make(name)
        .to_string()
}

/// boundary-biased u128 amount relative to a reference value (e.g. current balance)
pub fn amount_near(rng: &mut Rng, reference: u128) -> u128 {
    // about two thirds of the draws are affordable (<= reference), the rest sit on and beyond boundaries
    match rng.below(24) {
        0 => 0,
        1 => 1,
        2 | 3 => reference,
        4 => reference.saturating_add(1),
        5 => reference.saturating_sub(1),
        6 | 7 => reference / 2,
        8 => u128::MAX,
        9 => (u64::MAX as u128) + 1,
        10 => u64::MAX as u128,
        11 => reference.saturating_mul(2),
        12..=15 => {
            if reference == 0 {
                rng.below(100) as u128
            } else {
                rng.u128() % reference.saturating_add(1)
            }
        }
        16 => rng.below(10) as u128,
        _ => {
            if reference == 0 {
                rng.below(1000) as u128
            } else {
                ((reference / 10).max(1) * (rng.below(10) as u128 + 1) / 2).min(reference)
            }
        }
    }
}

pub const NS: u64 = 1_000_000_000;

/// A clock jump that lands around the deadline `deadline_ns` (nanoseconds): one second before, one nanosecond
/// before, exactly on it, one nanosecond after or one second after. `None` if that instant is not in the future.
/// Returns (dt seconds, dn nanoseconds).
pub fn jump_around(rng: &mut Rng, now_ns: u64, deadline_ns: u64) -> Option<(u64, u64)> {
    let target = match rng.below(7) {
        0 | 1 => deadline_ns.saturating_sub(NS),
        2 => deadline_ns.saturating_sub(1),
        3 | 4 => deadline_ns,
        5 => deadline_ns.saturating_add(1),
        _ => deadline_ns.saturating_add(NS),
    };
    if target > now_ns {
        let d = target - now_ns;
        Some((d / NS, d % NS))
    } else {
        None
    }
}

/// the sub-second part of an ordinary block step: real block times are not aligned to whole seconds
pub fn subsecond(rng: &mut Rng) -> u64 {
    if rng.chance(1, 3) {
        rng.below(NS)
    } else {
        0
    }
}
