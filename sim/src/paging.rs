//! C20 oracle: walk a paginated listing with every limit and compare with an independent ground truth.
use std::fmt::Debug;

pub const LIMITS: [Option<u32>; 12] = [
    None,
    Some(0),
    Some(1),
    Some(2),
    Some(3),
    Some(7),
    Some(10),
    Some(29),
    Some(30),
    Some(31),
    Some(100),
    Some(u32::MAX),
];

pub const MAX_LIMIT: usize = 30;
pub const DEFAULT_LIMIT: usize = 10;

/// `fetch(cursor, limit)` returns one page (Err(abort?) on query failure); `cursor(item)` is the
/// key to continue after. `expected` is the complete listing in the order the query promises.
/// Returns Err((class_suffix, detail)) on the first discrepancy.
pub fn check_paging<I: Clone + PartialEq + Debug, C: Clone>(
    expected: &[I],
    fetch: &dyn Fn(Option<C>, Option<u32>) -> Result<Vec<I>, bool>,
    cursor: &dyn Fn(&I) -> C,
    limits: &[Option<u32>],
    pages_walked: &mut u64,
) -> Result<(), (String, String)> {
    for lim in limits {
        let eff = lim.map(|l| l as usize).unwrap_or(DEFAULT_LIMIT).min(MAX_LIMIT);
        let mut got: Vec<I> = vec![];
        let mut cur: Option<C> = None;
        let mut guard = 0;
        loop {
            guard += 1;
            if guard > expected.len() + 5 {
                return Err(("no-termination".into(), format!("limit {:?}: paging does not terminate", lim)));
            }
            let page = match fetch(cur.clone(), *lim) {
                Ok(p) => p,
                Err(abort) => {
                    return Err((
                        if abort { "query-abort".into() } else { "query-error".into() },
                        format!("limit {:?}: list query failed", lim),
                    ))
                }
            };
            *pages_walked += 1;
            if page.len() > eff {
                return Err((
                    "page-too-long".into(),
                    format!("limit {:?}: page of {} items exceeds {}", lim, page.len(), eff),
                ));
            }
            if *lim == Some(0) {
                if !page.is_empty() {
                    return Err(("limit0-nonempty".into(), format!("limit 0 returned {} items", page.len())));
                }
                break;
            }
            let remaining = expected.len().saturating_sub(got.len());
            if lim.is_none() && remaining >= DEFAULT_LIMIT && page.len() != DEFAULT_LIMIT {
                return Err((
                    "default-not-10".into(),
                    format!("no limit: page has {} items with {} remaining", page.len(), remaining),
                ));
            }
            if page.is_empty() {
                break;
            }
            cur = Some(cursor(page.last().unwrap()));
            got.extend(page);
            if got.len() > expected.len() {
                break;
            }
        }
        if *lim == Some(0) {
            continue;
        }
        if got != expected {
            // classify
            let class = if got.len() < expected.len() {
                "missing-items"
            } else if got.len() > expected.len() {
                "extra-or-duplicate-items"
            } else {
                "wrong-order-or-content"
            };
            return Err((
                class.into(),
                format!(
                    "limit {:?}: walked {} items, expected {}; first difference at index {:?}",
                    lim,
                    got.len(),
                    expected.len(),
                    got.iter().zip(expected.iter()).position(|(a, b)| a != b)
                ),
            ));
        }
    }
    Ok(())
}


/// A cursor taken from an earlier page may no longer be an item (the item left between two pages): the next
/// page is still "everything after the cursor". `stale` are keys that are valid cursors but not current items.
pub fn check_stale_cursors<I: Clone + PartialEq + Debug, C: Clone + Ord + Debug>(
    expected: &[I],
    fetch: &dyn Fn(Option<C>, Option<u32>) -> Result<Vec<I>, bool>,
    cursor: &dyn Fn(&I) -> C,
    stale: &[C],
) -> Result<(), (String, String)> {
    for c in stale {
        if expected.iter().any(|i| cursor(i) == *c) {
            continue;
        }
        for lim in [Some(2u32), None] {
            let eff = lim.map(|l| l as usize).unwrap_or(DEFAULT_LIMIT).min(MAX_LIMIT);
            let want: Vec<I> = expected.iter().filter(|i| cursor(i) > *c).take(eff).cloned().collect();
            match fetch(Some(c.clone()), lim) {
                Ok(page) => {
                    if page != want {
                        return Err((
                            "page-after-stale-cursor".into(),
                            format!("cursor {:?} (no longer / not an item), limit {:?}: page {:?}, expected {:?}", c, lim, page, want),
                        ));
                    }
                }
                Err(abort) => return Err((if abort { "query-abort".into() } else { "query-error".into() }, format!("cursor {:?}: list query failed", c))),
            }
        }
    }
    Ok(())
}
