#!/bin/bash
# selftest/determinism.sh [n]  — every property: n seeded runs executed twice in separate processes at
# worker counts 1, 4 and 16 (and under two master seeds); per-run event-log hashes must be identical.
set -u
N="${1:-300}"
BIN=/verif/sim/target/release/cwsim
FAIL=0
for P in C01 C02 C03 C05 C06 C07 C08 C09 C10 C11 C12 C13 C14 C15 C16 C17 C18 C19 C20; do
  for SEED in 1 20261002; do
    VERIF_SEED=$SEED $BIN hashes $P $N --threads 16 > /tmp/det-a.txt
    VERIF_SEED=$SEED $BIN hashes $P $N --threads 4  > /tmp/det-b.txt
    VERIF_SEED=$SEED $BIN hashes $P $N --threads 1  > /tmp/det-c.txt
    if cmp -s /tmp/det-a.txt /tmp/det-b.txt && cmp -s /tmp/det-a.txt /tmp/det-c.txt && [ -s /tmp/det-a.txt ]; then
      echo "deterministic $P seed=$SEED runs=$(wc -l < /tmp/det-a.txt)"
    else
      echo "NON-DETERMINISTIC $P seed=$SEED"; diff /tmp/det-a.txt /tmp/det-c.txt | head -5; FAIL=1
    fi
  done
done
rm -f /tmp/det-a.txt /tmp/det-b.txt /tmp/det-c.txt
exit $FAIL
