#!/usr/bin/env python3
"""Regenerates /verif/MANIFEST.json from the table below (kept in one place so it is always valid)."""
import json, os
HERE = os.path.dirname(os.path.dirname(os.path.abspath(__file__)))
props = [json.loads(l) for l in open(os.path.join(HERE, 'properties.jsonl'))]

TECH = "deterministic simulation with fault injection: seeded search over transaction schedules, block/time placement and injected sub-call failures on an in-process chain running the real contracts; invariants checked after every event; minimised replay file"

# property -> (world, level, level text, note, design_ref)
CLAIMED = {
 "C01": ("A", "exploration", "Seeded simulated histories (several holders, spenders, minter, re-entrant receiver contracts, injected early/late sub-call failures, migrations) against the real cw20-base; after every event supply == sum of paged balances, and every call that returned Ok satisfies the exact per-account delta relation from in-frame snapshots; failed transactions must change nothing.", "cw-multi-test App as wasmd stub; MockApi/MockStorage; sampling, not proof", "5/C01"),
 "C02": ("A", "exploration", "Same simulated chain, workload biased to allowances with expiries placed around the clock and owner-decrease racing spender-draw in both orders; per-call allowance/balance relation, cumulative grant/draw ledger over committed calls, Receive notification checked against the Sink delivery log.", "as C01; expiry fields after removal are observed, not predicted", "5/C02"),
 "C13": ("A", "exploration", "Simulated histories of Mint / Burn / UpdateMinter by minter, former minters and strangers at cap boundaries; supply may rise only inside a Mint frame whose sender is the in-frame pre-minter; cap fixed at instantiation; renounce is permanent.", "as C01", "5/C13"),
 "C03": ("C", "exploration", "Seeded voting histories on both multisigs (zero-weight members and proposers, all three threshold kinds on and around legal bounds, votes of all four kinds in scheduler order, clock jumps to expiry -1/0/+1); after every event the reported status of every proposal is compared with the cw3 rules evaluated in exact integer arithmetic on the ballots paged from ListVotes, the reported total and expiry; Execute/Close admission checked against the same verdict.", "as C01; thresholds with more than 9 decimals may be one vote more lenient (never stricter), as the property list itself allows", "5/C03"),
 "C05": ("C", "fault_enumeration", "Simulated interleavings of propose/vote/execute/close over concurrent proposals with payloads that fail when dispatched (injected early/late), call back into the multisig (re-entrancy) or target the other multisig; dispatch log of every successful multisig call compared with what modules and contracts actually received; execute count, lifecycle order, ids and content immutability tracked over all observations; quiescence phase re-executes every still-Passed proposal with faults off.", "as C01; sub-message gas is not metered (out-of-gas = injected late failure); fault placement is sampled (k-th dispatch to a target, early or late), not exhaustive", "5/C05"),
 "C06": ("C", "exploration", "The simulator keeps the true membership timeline from full ListMembers observations after every transaction, so the start-of-block snapshot is known independently of the contracts' snapshot code; group edits are scheduled before, in the same block as, and after Propose and Vote; every ballot weight, the proposer's implicit ballot and the reported total are compared with that snapshot after every event.", "as C01", "5/C06"),
 "C09": ("C", "exploration", "Group histories with several edits to one address per block, removals and re-adds, bond/unbond, hooks that fail or re-enter; after every event total == sum of paged members and raw cw4 keys == smart queries; Member{at_height} / TotalWeight{at_height} probed at heights from before instantiation to the future against the simulator's own start-of-block timeline.", "as C01", "5/C09"),
 "C10": ("C", "exploration", "cw4-stake with native and cw20 stake, tokens_per_weight / min_bond / unbonding period drawn per run, amounts across u128, foreign-token and fake-token attempts, donations; per-call stake/claim relation from in-frame snapshots, Claim checked against the oracle's own unbond ledger and clock, contract holdings == stakes + claims + donations after every event, weight == floor(stake/tpw) in exact arithmetic; quiescence: everyone exits and the contract ends with exactly the donations.", "as C01", "5/C10"),
 "C14": ("C", "exploration", "Histories of UpdateAdmin/AddHook/RemoveHook/UpdateMembers/bond/unbond by admins, former admins and strangers with Sinks as hooks (some failing, some re-entering as admin); in-frame pre/post snapshots decide who may change what; hook notifications are replayed over the pre-membership and must yield exactly the post-membership, one per registered hook, delivered exactly once.", "as C01", "5/C14"),
 "C15": ("C", "exploration", "cw3-flex with native and cw20 deposits, refunds on/off: Propose with exact, missing, short, excess and wrong-denom payment; refund messages may appear only in Execute (always) or Close (iff enabled), once per proposal; failed pull/refund injected; quiescence closes/executes everything and requires every promised deposit to have come back.", "as C01; proposal payloads never spend the deposit denomination", "5/C15"),
 "C07": ("B", "exploration", "Both proxies on the simulated chain with bank and recording staking/distribution/gov/ibc/stargate modules; callers of every class (admin, subkey, removed admin, stranger) submit lists of 0-4 messages of every CosmosMsg kind after histories of admin, allowance and permission changes; the oracle decides coverage from the in-frame pre-snapshot, requires Response.messages == submitted list, and compares what modules/contracts actually received from the proxy with what its successful calls returned; relayed messages are failed early/late by injection.", "as C01", "5/C07"),
 "C08": ("B", "exploration", "Subkey spending with 1-3 sends of 1-3 coins (duplicate denoms, several sends per denom) racing admin increases/decreases with expiries around the clock; exact per-denom deduction from in-frame snapshots, other subkeys untouched, cumulative relayed <= granted ledger over committed calls, failed relays leave no deduction.", "as C01; admin callers are exempt from deduction", "5/C08"),
 "C16": ("B", "exploration", "Differential probe on the states simulated histories reach: CanExecute{sender,msg} is queried and Execute{msgs:[msg]} by the same sender is submitted as the very next transaction in the same block; the answer must equal whether the proxy's own execute returned Ok (downstream success is irrelevant).", "a state probe rather than an interleaving property (DESIGN.md section 5/C16)", "5/C16"),
 "C17": ("B", "exploration", "Histories of UpdateAdmins (empty lists, duplicates, self-removal), Freeze races, allowance and permission calls by admins, removed admins, subkeys and strangers on mutable and immutable proxies; in-frame pre/post AdminList and tables decide who changed what; a frozen list must be identical at every later observation.", "as C01", "5/C17"),
 "C11": ("D", "fault_enumeration", "cw20-ics20 on the simulated chain with real cw20 tokens and bank, 1-3 channels, and a simulated IBC core/relayer/remote chain that is malicious in most runs (foreign denoms, other port/channel, nested prefixes, amounts 0 / above outstanding / above u64 / u128::MAX, invalid receivers, non-JSON data, arbitrary acks, timeouts); payout and refund sub-calls are failed early and late by injection; after every event holdings >= sum of outstanding per token and payouts <= escrow per channel and denomination from the dispatch log.", "as C01; IBC-core guarantees (true endpoints, one ack xor timeout per sent packet, timeout only after its timestamp) are enforced by the stub; native denoms never start with cw20:; fake tokens are attackers, not members of 'every token'; fault placement is sampled, not exhaustive", "5/C11"),
 "C12": ("D", "fault_enumeration", "As C11 with an honest remote voucher ledger in most runs; the oracle keeps its own sent/failed/redeemed ledger per channel and denomination and compares it with Channel{} after every event; every incoming packet must be acknowledged without failing or aborting, success acks require the full payout, error acks require the complete observable state to equal the pre-packet state; every accepted transfer must emit exactly one well-formed ICS-20 packet; migrations (same version; reconstructed pre-allow-list layout, with and without default gas limit) are injected into live histories; quiescence settles all packets and compares books with the remote voucher supply.", "as C11; pre-allow-list storage layout reconstructed from migrations.rs by storage surgery (old binaries are not in the repository)", "5/C12"),
 "C18": ("D", "exploration", "Histories of Allow (raise, lower, unlimit), UpdateAdmin hand-overs, migrations with and without default gas limit and transfers of listed/unlisted/fake tokens by governance, former governance and strangers; in-frame snapshots decide authority; the allow list and default may only loosen between consecutive observations; every payout/refund sub-message must carry the token's current limit or else the default.", "as C11; the monotonicity baseline restarts at a storage-surgery migration, which models a different past rather than a transition", "5/C18"),
 "C20": ("ABCD", "exploration", "State probe on the states simulated histories reach in all four worlds, with bulk-population runs of 25-70 items per listing: for each of the list queries (cw20-base 3, cw1-subkeys 2, cw3-fixed 4, cw3-flex 4, cw4-group 1, cw4-stake 1, cw20-ics20 1) and each limit in {absent,0,1,2,3,7,10,29,30,31,100,u32::MAX} the listing is walked with the last key as cursor and compared with an independent raw dump of the contract's storage (filtered by the oracle's own expiry test for the time-dependent subkeys listing).", "a state probe rather than an interleaving property (DESIGN.md section 5/C20); ground truth decodes cw-storage-plus key layout", "5/C20"),
 "C19": ("A", "exploration", "After every event the single-allowance query, the owner listing and the spender listing are compared for all actor pairs and all listed pairs; migrations from a reconstructed pre-0.14 layout (spender index deleted by storage surgery, old cw2 version) are injected at arbitrary points of live histories.", "pre-0.14 layout reconstructed from migrate(); as C01", "5/C19"),
}
NA = {
 "C04": "pure arithmetic over three library functions of (threshold, total, tally, expired): no schedule, clock, fault or multi-party dimension for a simulator to explore; deciding it by seeded runs would only be input generation (DESIGN.md section 6)",
}
PENDING_REASON = "check not built yet in this session (planned, see DESIGN.md section 11); not claimed until its command exists"

checks = []
for p in props:
    pid = p["id"]
    if pid in CLAIMED:
        w, level, text, note, ref = CLAIMED[pid]
        checks.append({
            "property_id": pid,
            "quick_cmd": f"./check {pid} quick",
            "thorough_cmd": f"./check {pid} thorough",
            "evidence_file": f"/verif/evidence/{pid}.json",
            "replay_cmd_template": "./check --replay {path}",
            "engine": "cwsim",
            "level_claimed": {"category": level, "text": text, "design_ref": f"DESIGN.md section {ref}"},
            "level_note": note,
            "technique": TECH,
        })
na = []
for p in props:
    pid = p["id"]
    if pid not in CLAIMED:
        na.append({"property_id": pid, "reason": NA.get(pid, PENDING_REASON)})

m = {
 "version": 1,
 "setup_cmd": "cd /verif/sim && CARGO_NET_OFFLINE=true cargo build --release --offline",
 "hooks": {
   "guard": "cosmwasm_cw_plus_verif (unused: no source hooks were needed)",
   "enable": "none needed: the simulator drives public entry points of the contracts as path dependencies of /verif/sim",
   "baseline_off_cmd": "cd /repo && cargo test --workspace --no-fail-fast --offline",
   "source_commits": [],
   "add_only": True,
 },
 "engines": [{"name": "cwsim", "path": "/verif/sim", "serves_properties": sorted(CLAIMED.keys()),
              "kind_free_text": "deterministic whole-chain simulator (cw-multi-test App as wasmd stub, real contracts, seeded scheduler, fault injection, replay + ddmin minimiser)"}],
 "checks": checks,
 "not_applicable": na,
 "notes": "All checks: ./check <id> quick|thorough; VERIF_SEED selects the master seed (default fixed). Exit 0 held / 1 VIOLATION / 2 harness error. known_findings.json lists recorded genuine defects.",
}
json.dump(m, open(os.path.join(HERE, 'MANIFEST.json'), 'w'), indent=1)
print("claimed:", sorted(CLAIMED.keys()), "not claimed:", [x["property_id"] for x in na])
