#!/usr/bin/env python3
"""Regenerates /verif/MANIFEST.json from the table below (kept in one place so it is always valid)."""
import json, os
HERE = os.path.dirname(os.path.dirname(os.path.abspath(__file__)))
props = [json.loads(l) for l in open(os.path.join(HERE, 'properties.jsonl'))]

TECH = "deterministic simulation with fault injection: seeded search over transaction schedules, block/time placement and injected sub-call failures on an in-process chain running the real contracts; invariants checked after every event; minimised replay file"

# property -> (world, level, level text, note, design_ref)
CLAIMED = {
 "C01": ("A", "exploration", "Seeded simulated histories (several holders, spenders, minter, re-entrant receiver contracts, injected early/late sub-call failures, migrations) against the real cw20-base; after every event supply == sum of paged balances, and every call that returned Ok satisfies the exact per-account delta relation from in-frame snapshots; failed transactions must change nothing.", "cw-multi-test App as wasmd stub; MockApi/MockStorage; sampling, not proof", "5/C01"),
 "C02": ("A", "exploration", "Same simulated chain, workload biased to allowances with expiries placed around the clock and owner-decrease racing spender-draw in both orders; per-call allowance/balance relation, cumulative grant/draw ledger over committed calls, Receive notification checked against the Sink delivery log.", "as C01; expiry fields after removal are observed, not predicted", "5/C02"),
 "C13": ("A", "exploration", "Simulated histories of Mint / Burn / UpdateMinter by minter, former minters and strangers at cap boundaries; supply may rise only inside a Mint frame whose sender is the in-frame pre-minter; cap fixed at instantiation; renounce is permanent.", "as C01", "5/C13"),
 "C19": ("A", "exploration", "After every event the single-allowance query, the owner listing and the spender listing are compared for all actor pairs and all listed pairs; migrations from a reconstructed pre-0.14 layout (spender index deleted by storage surgery, old cw2 version) are injected at arbitrary points of live histories.", "pre-0.14 layout reconstructed from migrate(); as C01", "5/C19"),
}
NA = {
 "C04": "pure arithmetic over three library functions of (threshold, total, tally, expired): no schedule, clock, fault or multi-party dimension for a simulator to explore; deciding it by seeded runs would only be input generation (DESIGN.md section 6)",
}
PENDING_REASON = "check not built yet in this session (planned, see DESIGN.md section 11); not claimed until its command exists"

checks = []
for p in props:
    pid = p["id"]
    if pid in CLAIMED:
        w, level, text, note, ref = CLAIMED[pid]
        checks.append({
            "property_id": pid,
            "quick_cmd": f"./check {pid} quick",
            "thorough_cmd": f"./check {pid} thorough",
            "evidence_file": f"/verif/evidence/{pid}.json",
            "replay_cmd_template": "./check --replay {path}",
            "engine": "cwsim",
            "level_claimed": {"category": level, "text": text, "design_ref": f"DESIGN.md section {ref}"},
            "level_note": note,
            "technique": TECH,
        })
na = []
for p in props:
    pid = p["id"]
    if pid not in CLAIMED:
        na.append({"property_id": pid, "reason": NA.get(pid, PENDING_REASON)})

m = {
 "version": 1,
 "setup_cmd": "cd /verif/sim && CARGO_NET_OFFLINE=true cargo build --release --offline",
 "hooks": {
   "guard": "cosmwasm_cw_plus_verif (unused: no source hooks were needed)",
   "enable": "none needed: the simulator drives public entry points of the contracts as path dependencies of /verif/sim",
   "baseline_off_cmd": "cd /repo && cargo test --workspace --no-fail-fast --offline",
   "source_commits": [],
   "add_only": True,
 },
 "engines": [{"name": "cwsim", "path": "/verif/sim", "serves_properties": sorted(CLAIMED.keys()),
              "kind_free_text": "deterministic whole-chain simulator (cw-multi-test App as wasmd stub, real contracts, seeded scheduler, fault injection, replay + ddmin minimiser)"}],
 "checks": checks,
 "not_applicable": na,
 "notes": "All checks: ./check <id> quick|thorough; VERIF_SEED selects the master seed (default fixed). Exit 0 held / 1 VIOLATION / 2 harness error. known_findings.json lists recorded genuine defects.",
}
json.dump(m, open(os.path.join(HERE, 'MANIFEST.json'), 'w'), indent=1)
print("claimed:", sorted(CLAIMED.keys()), "not claimed:", [x["property_id"] for x in na])
