#!/bin/bash
# tools/mutants_stage2.sh <mutants_dir> <instance> <of>  — run the checks against every surviving mutant
# (scratch worktree /tmp/seedrepo<i> + shadow build /tmp/seedsim<i>; stops at the first property whose check reports)
set -u
D="$1"; I="$2"; OF="$3"
export CARGO_NET_OFFLINE=true RUST_BACKTRACE=0
props_for() {
  case "$1" in
    contracts/cw20-base/*) echo "C01 C02 C13 C19 C20";;
    contracts/cw1-whitelist/*) echo "C17 C07 C16 C20";;
    contracts/cw1-subkeys/*) echo "C08 C07 C16 C17 C20";;
    contracts/cw3-fixed-multisig/*) echo "C05 C03 C06 C20 C15";;
    contracts/cw3-flex-multisig/*) echo "C05 C03 C06 C15 C20";;
    contracts/cw4-group/*) echo "C09 C14 C06 C20";;
    contracts/cw4-stake/*) echo "C10 C09 C14 C20";;
    contracts/cw20-ics20/*) echo "C12 C11 C18 C20";;
    packages/cw3/*) echo "C03 C05 C15 C06";;
    packages/cw4/*) echo "C06 C09 C05 C20";;
    packages/cw20/*) echo "C10 C15 C12 C11";;
    *) echo "";;
  esac
}
[ -d /tmp/seedrepo$I ] || git -C /repo worktree add -q --detach /tmp/seedrepo$I HEAD || exit 2
mkdir -p /tmp/seedsim$I /tmp/seedrun$I
SURV=$(python3 - <<P
import json,os
ix=json.load(open('$D/index.json'))
print(' '.join(str(m['id']) for m in ix if os.path.exists('$D/%d.stage1'%m['id']) and open('$D/%d.stage1'%m['id']).read().strip()=='survived'))
P
)
c=0
for k in $SURV; do
  c=$((c+1)); [ $((c % OF)) -eq $I ] || continue
  [ -f "$D/$k.stage2" ] && continue
  FILE=$(python3 -c "import json;print([m for m in json.load(open('$D/index.json')) if m['id']==$k][0]['file'])")
  cd /tmp/seedrepo$I && git checkout -q --detach "$(git -C /repo rev-parse HEAD)" 2>/dev/null; git checkout -q -- . ; git clean -qfd
  git apply "$D/$k.diff" || { echo "noapply" > "$D/$k.stage2"; continue; }
  rsync -a --delete --exclude target /verif/sim/ /tmp/seedsim$I/
  sed -i "s#path = \"/repo/#path = \"/tmp/seedrepo$I/#g" /tmp/seedsim$I/Cargo.toml
  cd /tmp/seedsim$I && cargo build --release --offline >/tmp/seedsim$I/build.log 2>&1 || { echo "sim-build-fail" > "$D/$k.stage2"; continue; }
  cp /verif/known_findings.json /tmp/seedrun$I/
  RES="uncaught"
  for P in $(props_for "$FILE"); do
    OUT=$(./target/release/cwsim check "$P" quick --dir /tmp/seedrun$I 2>&1); RC=$?
    if [ $RC -eq 1 ]; then RES="caught $P $(echo "$OUT" | grep -oE 'violation class=[^ ]+' | sort -u | head -3 | tr '\n' ' ')"; break; fi
    if [ $RC -ne 0 ]; then RES="harness-exit-$RC $P"; break; fi
  done
  echo "$RES" > "$D/$k.stage2"
done
cd /tmp/seedrepo$I && git checkout -q -- . ; git clean -qfd
echo "instance $I done"
