#!/bin/bash
# tools/confirm_seed.sh <name> <worktree>   confirm a seeded change in its scratch worktree:
#   (a) whole existing suite passes with patch.diff, (b) demo fails with it, (c) demo passes without it
# writes /verif/seeded/<name>/{patch.diff,demo.diff,NOTES.md,confirm.log}; prints CONFIRMED or REJECTED
set -u
NAME="$1"; WT="$2"
export CARGO_NET_OFFLINE=true CARGO_TARGET_DIR=${SEED_TARGET:-/tmp/seed-target} RUST_BACKTRACE=0
OUT=/verif/seeded/$NAME; mkdir -p "$OUT"
LOG="$OUT/confirm.log"; : > "$LOG"
cd "$WT" || exit 2
git checkout -q -- . ; git clean -qfd -e "SEEDED*"
[ -f SEEDED/patch.diff ] && [ -f SEEDED/demo.diff ] || { echo "REJECTED $NAME: missing files"; exit 1; }
# which crate / test does the demo add?
DEMOFILE=$(grep -E '^\+\+\+ b/' SEEDED/demo.diff | head -1 | sed 's#^+++ b/##')
CRATE=$(echo "$DEMOFILE" | sed -E 's#^(contracts|packages)/([^/]+)/.*#\2#')
if echo "$DEMOFILE" | grep -q '/tests/'; then TESTARG="--test $(basename "$DEMOFILE" .rs)"; else TESTARG=""; fi
echo "demo file $DEMOFILE crate $CRATE testarg $TESTARG" >> "$LOG"
git apply SEEDED/patch.diff || { echo "REJECTED $NAME: patch does not apply"; exit 1; }
echo "== (a) full suite with change" >> "$LOG"
if cargo test --workspace --offline --no-fail-fast >> "$LOG" 2>&1; then A=pass; else A=fail; fi
git apply SEEDED/demo.diff || { echo "REJECTED $NAME: demo does not apply"; git checkout -q -- .; exit 1; }
echo "== (b) demo with change" >> "$LOG"
if cargo test --offline -p "$CRATE" $TESTARG >> "$LOG" 2>&1; then B=pass; else B=fail; fi
git apply -R SEEDED/patch.diff
echo "== (c) demo without change" >> "$LOG"
if cargo test --offline -p "$CRATE" $TESTARG >> "$LOG" 2>&1; then C=pass; else C=fail; fi
git checkout -q -- . ; git clean -qfd -e "SEEDED*"
cp SEEDED/patch.diff SEEDED/demo.diff "$OUT/"; cp SEEDED/NOTES.md "$OUT/" 2>/dev/null
echo "suite_with_change=$A demo_with_change=$B demo_without_change=$C" | tee -a "$LOG"
if [ "$A" = pass ] && [ "$B" = fail ] && [ "$C" = pass ]; then echo "CONFIRMED $NAME"; else echo "REJECTED $NAME"; fi
