#!/bin/bash
# tools/mutants_stage1.sh <mutants_dir> <instance> <of>   — which mutants survive the repository's own suite
# (scratch worktree /tmp/mutrepo<i>, target dir /tmp/mut-target<i>; /repo is never touched)
set -u
D="$1"; I="$2"; OF="$3"
export CARGO_NET_OFFLINE=true CARGO_TARGET_DIR=/tmp/mut-target$I RUST_BACKTRACE=0
[ -d /tmp/mutrepo$I ] || git -C /repo worktree add -q --detach /tmp/mutrepo$I HEAD || exit 2
cd /tmp/mutrepo$I || exit 2
N=$(python3 -c "import json;print(len(json.load(open('$D/index.json'))))")
for ((k=I; k<N; k+=OF)); do
  [ -f "$D/$k.stage1" ] && continue
  git checkout -q -- . ; git clean -qfd
  if ! git apply "$D/$k.diff" 2>/dev/null; then echo "noapply" > "$D/$k.stage1"; continue; fi
  if ! timeout 900 cargo test --workspace --offline --no-run >/dev/null 2>&1; then echo "build-fail" > "$D/$k.stage1"; continue; fi
  if timeout 600 cargo test --workspace --offline >/dev/null 2>&1; then echo "survived" > "$D/$k.stage1"; else echo "killed" > "$D/$k.stage1"; fi
done
git checkout -q -- . ; git clean -qfd
echo "instance $I done"
