#!/usr/bin/env python3
"""tools/add_seed_meta.py <name> <prop> <round> <change> <needs> <classes> <history> [check_property]
Writes /verif/seeded/<name>/meta.json and trims confirm.log to its summary lines."""
import json, os, sys
name, prop, rnd, change, needs, classes, history = sys.argv[1:8]
chk = sys.argv[8] if len(sys.argv) > 8 else None
p = os.path.join('/verif/seeded', name)
full = open(os.path.join(p, 'confirm.log')).read()
keep = [l for l in full.split('\n') if l.startswith('== ') or l.startswith('test result') or 'suite_with_change' in l or 'demo file' in l or 'FAILED' in l or 'panicked' in l][:60]
open(os.path.join(p, 'confirm.log'), 'w').write('\n'.join(keep) + '\n')
last = [l for l in full.strip().split('\n') if 'suite_with_change' in l][-1]
meta = {'breaks_property': prop, 'round': int(rnd), 'change': change, 'needs_to_manifest': needs,
        'origin': 'written by an independent sub-agent that saw only the property text, one-line descriptions of earlier ideas to avoid, and its own scratch worktree',
        'confirmed_by_me': {'how': 'tools/confirm_seed.sh', 'result': last},
        'detected_by': {'violation_classes': classes, 'history': history, 'how_run': 'tools/try_seed.sh (scratch worktree + shadow build; /repo untouched)'},
        'applies_to': 'patch.diff applies to /repo HEAD'}
if chk: meta['check_property'] = chk
json.dump(meta, open(os.path.join(p, 'meta.json'), 'w'), indent=1)
print('ok', name)
