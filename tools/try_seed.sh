#!/bin/bash
# tools/try_seed.sh <patch.diff> <prop> [runs]
# Run a check against a seeded change WITHOUT touching /repo: the patch is applied in a scratch git worktree of
# /repo's HEAD (/tmp/seedrepo$I) and a shadow copy of /verif/sim (/tmp/seedsim$I, path deps rewritten to the scratch
# worktree, own target dir) is built and run. (Equivalent to `git -C /repo apply` + check + `git checkout -- .`,
# but safe while other checks are running against /repo.)
set -u
PATCH="$(readlink -f "$1")"; PROP="$2"; RUNS="${3:-}"
I="${SEEDINST:-}"   # optional instance suffix so that several invocations can run side by side
export CARGO_NET_OFFLINE=true RUST_BACKTRACE=0
if [ ! -d /tmp/seedrepo$I ]; then git -C /repo worktree add -q --detach /tmp/seedrepo$I HEAD || exit 2; fi
cd /tmp/seedrepo$I || exit 2
git checkout -q --detach "$(git -C /repo rev-parse HEAD)" 2>/dev/null
git checkout -q -- . ; git clean -qfd
git apply "$PATCH" || { echo "patch does not apply"; exit 2; }
mkdir -p /tmp/seedsim$I
rsync -a --delete --exclude target /verif/sim/ /tmp/seedsim$I/
sed -i "s#path = \"/repo/#path = \"/tmp/seedrepo$I/#g" /tmp/seedsim$I/Cargo.toml
cd /tmp/seedsim$I && cargo build --release --offline >/tmp/seedsim$I/build.log 2>&1 || { echo BUILD FAILED; grep -E '^error' -A8 /tmp/seedsim$I/build.log | head -30; git -C /tmp/seedrepo$I checkout -q -- .; exit 2; }
mkdir -p /tmp/seedrun$I; cp /verif/known_findings.json /tmp/seedrun$I/
if [ -n "$RUNS" ]; then EXTRA="--runs $RUNS"; else EXTRA=""; fi
./target/release/cwsim check "$PROP" quick --dir /tmp/seedrun$I $EXTRA | grep -vE "^KNOWN-FINDING" | tail -12
RC=${PIPESTATUS[0]}
git -C /tmp/seedrepo$I checkout -q -- . ; git -C /tmp/seedrepo$I clean -qfd
echo "exit=$RC"
