#!/bin/bash
# tools/try_seed.sh <patch.diff> <prop> [runs]   apply a seeded change to /repo, run the check, undo it
set -u
PATCH="$1"; PROP="$2"; RUNS="${3:-}"
cd /repo || exit 2
if [ -n "$(git status --porcelain --untracked-files=no)" ]; then echo "/repo not clean"; exit 2; fi
git apply "$PATCH" || { echo "patch does not apply"; exit 2; }
cd /verif/sim && CARGO_NET_OFFLINE=true cargo build --release --offline >/verif/sim/build.log 2>&1 || { echo BUILD FAILED; grep -E '^error' -A8 /verif/sim/build.log | head -30; git -C /repo checkout -- .; exit 2; }
mkdir -p /tmp/seedrun
if [ -n "$RUNS" ]; then EXTRA="--runs $RUNS"; else EXTRA=""; fi
./target/release/cwsim check "$PROP" quick --dir /tmp/seedrun $EXTRA | grep -vE "^KNOWN-FINDING" | tail -12
RC=${PIPESTATUS[0]}
git -C /repo checkout -- .
echo "exit=$RC"
