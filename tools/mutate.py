#!/usr/bin/env python3
"""tools/mutate.py <out_dir> [max_per_file]
Systematic single-site source mutants of the non-test code of /repo (contracts/*/src, packages/*/src), written as
patch files <out_dir>/<n>.diff with <out_dir>/index.json. A complement to the hand-written seeded changes: the
mutants that compile and pass the repository's own suite ("survivors") are then run against the checks
(tools/mutants_run.sh). Validation tooling only — nothing here is part of a registered check."""
import difflib, json, os, re, subprocess, sys

out = sys.argv[1]
cap = int(sys.argv[2]) if len(sys.argv) > 2 else 10**9
os.makedirs(out, exist_ok=True)
files = subprocess.check_output(
    "cd /repo && git ls-files 'contracts/*/src/*.rs' 'packages/*/src/*.rs'", shell=True, text=True).split()
SKIP = ('msg.rs', 'error.rs', 'lib.rs', 'bin/', 'schema', 'test', 'mock', 'easy-addr', 'query.rs', 'helpers.rs.bak')

# (name, regex, replacement) — applied to one match at a time
OPS = [
    ('ge->gt', r' >= ', ' > '), ('gt->ge', r' > ', ' >= '), ('le->lt', r' <= ', ' < '), ('lt->le', r' < ', ' <= '),
    ('eq->ne', r' == ', ' != '), ('ne->eq', r' != ', ' == '),
    ('and->or', r' && ', ' || '), ('or->and', r' \|\| ', ' && '),
    ('plus->minus', r' \+ ', ' - '), ('minus->plus', r' - ', ' + '),
    ('pluseq->minuseq', r' \+= ', ' -= '), ('minuseq->pluseq', r' -= ', ' += '),
    ('checked->saturating', r'\.checked_(add|sub)\(([^()]*(?:\([^()]*\))?[^()]*)\)\?', r'.saturating_\1(\2)'),
    ('checked_err->saturating', r'\.checked_(add|sub)\(([^()]*)\)\s*\.map_err\([^()]*\)\?', r'.saturating_\1(\2)'),
    ('min->max', r'\.min\(', '.max('), ('max->min', r'\.max\(', '.min('),
    ('excl->incl', r'Bound::exclusive', 'Bound::inclusive'), ('incl->excl', r'Bound::inclusive', 'Bound::exclusive'),
    ('asc->desc', r'Order::Ascending', 'Order::Descending'), ('desc->asc', r'Order::Descending', 'Order::Ascending'),
    ('negate-if', r'\bif (?!let )([^{};]+?) \{', r'if !(\1) {'),
    ('drop-not', r'\bif !([a-zA-Z_][^{};]*?) \{', r'if \1 {'),
    ('is_none<->is_some', r'\.is_none\(\)', '.is_some()'), ('is_some->is_none', r'\.is_some\(\)', '.is_none()'),
    ('is_zero-negate', r'([a-zA-Z_\.]+)\.is_zero\(\)', r'!\1.is_zero()'),
    ('is_empty-negate', r'([a-zA-Z_\.]+)\.is_empty\(\)', r'!\1.is_empty()'),
    ('true->false', r'\btrue\b', 'false'), ('false->true', r'\bfalse\b', 'true'),
    ('lit+1', r'(?<![\w.])(\d+)(?=u(?:8|32|64|128)?\b|;|\)|,)', lambda m: str(int(m.group(1)) + 1)),
    ('Some->None', r'Some\(([a-z_\.]+)\)(?=[,;\)])', 'None'),
]
DEL = [
    ('del-store', r'^\s*[A-Z_]+\.(save|remove|update|set)\(.*\)\?;\s*$'),
    ('del-ensure', r'^\s*(ensure|ensure_eq|ensure_ne)!\(.*\);\s*$'),
    ('del-assert-call', r'^\s*[a-zA-Z_\.:]*(assert_|validate|check_|nonpayable|must_pay)[a-zA-Z_]*\(.*\)\?;\s*$'),
    ('del-call-stmt', r'^\s*(?:let _ = )?[a-z_]+(?:\.[a-z_]+)*\([^;]*\)\?;\s*$'),
]

# second operator set (selected with a third argument "2"): off-by-one on block heights / times / lengths,
# ignored errors, dropped operands, swapped zero/one amounts
OPS2 = [
    ('height+1', r'env\.block\.height(?!\s*[+\-])', 'env.block.height + 1'), ('height-1', r'env\.block\.height(?!\s*[+\-])', 'env.block.height - 1'),
    ('block-next', r'&env\.block\b', '&BlockInfo { height: env.block.height + 1, time: env.block.time.plus_seconds(1), chain_id: env.block.chain_id.clone() }'),
    ('drop-left-and', r'([\(\s])([a-zA-Z_!][^&|(){};]*?) && ', r'\1'), ('drop-right-and', r' && [a-zA-Z_!][^&|(){};]*?(?=[\s\)]*\{)', ''),
    ('drop-left-or', r'([\(\s])([a-zA-Z_!][^&|(){};]*?) \|\| ', r'\1'),
    ('len+1', r'\.len\(\)', '.len() + 1'),
    ('amount->zero', r'\bamount\b(?=[,\)])(?<!\bamount: amount)', 'Uint128::zero()'),
    ('sender->contract', r'&info\.sender\b', '&env.contract.address'),
    ('unwrap_or_default->one', r'\.unwrap_or_default\(\)', '.unwrap_or_else(|| 1u8.into())'),
    ('start_height-1', r'prop\.start_height', 'prop.start_height - 1'),
    ('saturating->wrapping', r'\.saturating_(add|sub)\(', r'.wrapping_\1('),
    ('checked->wrapping', r'\.checked_(add|sub|mul)\(([^()]*)\)\?', r'.wrapping_\1(\2)'),
    ('ne-none', r'Some\(([a-z_]+)\) =>', r'Some(\1) if false =>'),
    ('take-all', r'\.take\(limit\)', ''),
    ('filter-drop', r'\.filter\([^()]*(?:\([^()]*\)[^()]*)*\)', ''),
    ('clone-default', r'\.unwrap_or\(([A-Z_]+)\)', r'.unwrap_or(\1 + 1)'),
]
DEL2 = [
    ('ignore-error', r'^(\s*)([a-zA-Z_][a-zA-Z_0-9\.:]*\([^;]*\))\?;\s*$'),
]
if len(sys.argv) > 3 and sys.argv[3] == '2':
    OPS = OPS2
    DEL = []
else:
    DEL2 = []

index = []
n = 0
for f in files:
    if any(s in f for s in SKIP):
        continue
    src = open('/repo/' + f).read()
    cut = src.find('#[cfg(test)]')
    body = src if cut < 0 else src[:cut]
    lines = body.split('\n')
    per_file = 0
    seen = set()
    for li, line in enumerate(lines):
        s = line.strip()
        if not s or s.startswith('//') or s.startswith('#[') or s.startswith('use ') or s.startswith('pub const') and 'LIMIT' not in s and 'TIMEOUT' not in s:
            continue
        cands = []
        for name, rx, rep in OPS:
            for m in re.finditer(rx, line):
                new = line[:m.start()] + (rep(m) if callable(rep) else m.expand(rep)) + line[m.end():]
                if new != line:
                    cands.append((name, new))
        for name, rx in DEL:
            if re.match(rx, line):
                cands.append((name, None))
        for name, rx in DEL2:
            m = re.match(rx, line)
            if m:
                cands.append((name, f"{m.group(1)}let _ = {m.group(2)};"))
        for name, new in cands:
            key = (li, new)
            if key in seen:
                continue
            seen.add(key)
            if per_file >= cap:
                break
            ml = lines[:li] + ([new] if new is not None else []) + lines[li + 1:]
            msrc = '\n'.join(ml) + (src[cut:] if cut >= 0 else '')
            diff = ''.join(difflib.unified_diff(src.splitlines(True), msrc.splitlines(True), 'a/' + f, 'b/' + f))
            if not diff:
                continue
            open(f'{out}/{n}.diff', 'w').write(diff)
            index.append({'id': n, 'file': f, 'line': li + 1, 'op': name, 'old': line.strip(), 'new': (new or '<deleted>').strip()})
            n += 1
            per_file += 1
json.dump(index, open(f'{out}/index.json', 'w'), indent=0)
print(n, 'mutants')
