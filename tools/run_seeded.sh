#!/bin/bash
# tools/run_seeded.sh [name...]  — sensitivity self-test: apply every kept seeded change to /repo in turn,
# run the quick check of the property it breaks, undo it; prints a CAUGHT / MISSED matrix.
# (validation script, not a registered check)
cd /verif/seeded || exit 2
mkdir -p /tmp/seedrun; cp /verif/known_findings.json /tmp/seedrun/
NAMES="${@:-$(ls)}"
for n in $NAMES; do
  prop=$(python3 -c "import json;m=json.load(open('/verif/seeded/$n/meta.json'));print(m.get('check_property',m['breaks_property']))")
  out=$(/verif/tools/try_seed.sh /verif/seeded/$n/patch.diff $prop 2>&1)
  if echo "$out" | grep -q "^VIOLATION property=$prop"; then
    cls=$(echo "$out" | grep -oE "violation class=[^ ]+" | sort -u | tr '\n' ' ')
    echo "CAUGHT $n $prop $cls"
  else
    echo "MISSED $n $prop :: $(echo "$out" | tail -2 | tr '\n' ' ')"
  fi
done
