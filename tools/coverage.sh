#!/bin/bash
# tools/coverage.sh [runs]  — which lines of the contracts do the simulated workloads reach? (reach measurement, not a check)
# builds an instrumented copy of the simulator on the nightly toolchain (its llvm-tools match), runs every
# property's quick workload with fewer runs, and prints per-file line coverage of /repo plus the uncovered lines
set -u
RUNS="${1:-1500}"
TC=$(ls -d ~/.rustup/toolchains/nightly-x86_64-unknown-linux-gnu)
BIN=$TC/lib/rustlib/x86_64-unknown-linux-gnu/bin
mkdir -p /tmp/covsim /tmp/covrun /tmp/covprof
rsync -a --delete --exclude target /verif/sim/ /tmp/covsim/
# (instrumented proc-macros and build scripts write a profile when they run: keep those out of /repo)
cd /tmp/covsim && LLVM_PROFILE_FILE=/tmp/covprof/build-%p-%m.profraw CARGO_NET_OFFLINE=true RUSTFLAGS="-C instrument-coverage" cargo +nightly build --release --offline >/tmp/covsim/build.log 2>&1 || { echo build failed; exit 2; }
cp /verif/known_findings.json /tmp/covrun/; rm -f /tmp/covprof/*; find /repo -name '*.profraw' -not -path '*/target/*' -delete
for p in C01 C02 C03 C05 C06 C07 C08 C09 C10 C11 C12 C13 C14 C15 C16 C17 C18 C19 C20; do
  LLVM_PROFILE_FILE="/tmp/covprof/$p-%p.profraw" ./target/release/cwsim check $p quick --dir /tmp/covrun --runs $RUNS --no-sweep > /tmp/covrun/$p.log 2>&1
done
$BIN/llvm-profdata merge -sparse /tmp/covprof/*.profraw -o /tmp/covprof/all.profdata
$BIN/llvm-cov report ./target/release/cwsim -instr-profile=/tmp/covprof/all.profdata $(git -C /repo ls-files 'contracts/*/src/*.rs' 'packages/*/src/*.rs' | sed 's#^#/repo/#') 2>/dev/null | tee /tmp/covrun/report.txt
$BIN/llvm-cov show ./target/release/cwsim -instr-profile=/tmp/covprof/all.profdata --show-line-counts-or-regions=false $(git -C /repo ls-files 'contracts/*/src/*.rs' 'packages/*/src/*.rs' | sed 's#^#/repo/#') > /tmp/covrun/show.txt 2>/dev/null
echo "annotated source: /tmp/covrun/show.txt"
